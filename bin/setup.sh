#!/bin/sh
# setup_cmd: nothing is prebuilt - every check rebuilds /repo and its harness in a scratch directory.
# This only verifies that the offline toolchain the checks rely on is present.
set -e
cd "$(dirname "$0")/.."
for t in meson ninja gcc g++ clang clang++ python3-vt rsync javac java nm; do
  command -v $t >/dev/null 2>&1 || { echo "missing tool: $t"; exit 1; }
done
python3-vt -c "import hypothesis, numpy" 
mkdir -p evidence replays
echo "setup ok"
