#!/bin/sh
# hooks.baseline_off_cmd: build /repo with the verification guard OFF (there are no source hooks) and run its test suite.
set -e
REPO=${VERIF_REPO:-/repo}
S=$(mktemp -d ${TMPDIR:-/var/tmp}/xrlv.base.XXXXXX)
trap 'rm -rf "$S"' EXIT
meson setup "$S/b" "$REPO" -Dpython-bindings=disabled -Dpython-numpy-bindings=disabled -Dfortran-bindings=disabled >"$S/setup.log" 2>&1 || { cat "$S/setup.log"; exit 2; }
ninja -C "$S/b" >"$S/build.log" 2>&1 || { tail -50 "$S/build.log"; exit 2; }
meson test -C "$S/b" --no-rebuild --print-errorlogs 2>&1 | tail -60
