package com.github.tschoonj.xraylib;

import java.io.*;
import java.lang.reflect.*;
import java.nio.ByteBuffer;
import java.nio.ByteOrder;
import java.nio.charset.StandardCharsets;
import java.util.*;
import org.apache.commons.math3.complex.Complex;

/** Reflection driver for C19: reads the call file of the universal interpreter, calls the static method of the same name on Xraylib and
 *  writes one result line per call in the same encoding as harness/xrlcall.cpp ("R\t<result>\tE\t-" or "R\t-\tE\t<exception>"). */
public class JHarness {
  static String hex(byte[] b) { StringBuilder s = new StringBuilder(); for (byte x : b) s.append(String.format("%02x", x & 0xff)); return s.toString(); }
  static String hex(String t) { return hex(t.getBytes(StandardCharsets.ISO_8859_1)); }
  static String unhex(String h) { byte[] b = new byte[h.length() / 2]; for (int i = 0; i < b.length; i++) b[i] = (byte) Integer.parseInt(h.substring(2 * i, 2 * i + 2), 16); return new String(b, StandardCharsets.ISO_8859_1); }
  static String fd(double v) { if (Double.isNaN(v)) return "nan"; if (Double.isInfinite(v)) return v > 0 ? "inf" : "-inf"; return Double.toHexString(v); }

  static Crystal_Struct userCrystal(String tok) {
    // g:a;b;c;al;be;ga|Z,f,x,y,z|...
    String[] parts = tok.substring(2).split("\\|");
    String[] cell = parts[0].split(";");
    int n = parts.length - 1;
    ByteBuffer bb = ByteBuffer.allocate(16 + 8 * 7 + 4 + n * 36).order(ByteOrder.LITTLE_ENDIAN);
    bb.put("generated".getBytes(StandardCharsets.US_ASCII)); bb.put((byte) 0);
    double[] c = new double[6];
    for (int i = 0; i < 6; i++) { c[i] = Double.parseDouble(cell[i]); bb.putDouble(c[i]); }
    double ca = Math.cos(c[3] * Math.PI / 180), cb = Math.cos(c[4] * Math.PI / 180), cg = Math.cos(c[5] * Math.PI / 180);
    bb.putDouble(c[0] * c[1] * c[2] * Math.sqrt((1 - ca * ca - cb * cb - cg * cg) + 2 * ca * cb * cg));
    bb.putInt(n);
    for (int i = 0; i < n; i++) {
      String[] a = parts[i + 1].split(",");
      bb.putInt(Integer.parseInt(a[0]));
      for (int k = 1; k < 5; k++) bb.putDouble(Double.parseDouble(a[k]));
    }
    bb.flip();
    return new Crystal_Struct(bb);
  }

  static String enc(Object r) {
    if (r == null) return "v";
    if (r instanceof Double) return "d:" + fd((Double) r);
    if (r instanceof Integer) return "i:" + r;
    if (r instanceof Complex) return "z:" + fd(((Complex) r).getReal()) + "," + fd(((Complex) r).getImaginary());
    if (r instanceof String) return "s:" + hex((String) r);
    if (r instanceof String[]) { String[] l = (String[]) r; StringBuilder s = new StringBuilder("l:" + l.length + ";"); for (int i = 0; i < l.length; i++) s.append(i > 0 ? "," : "").append(hex(l[i])); return s.toString(); }
    if (r instanceof double[]) { double[] d = (double[]) r; StringBuilder s = new StringBuilder("i:1"); for (double x : d) s.append(";od=").append(fd(x)); return s.toString(); }
    if (r instanceof compoundData) { compoundData cd = (compoundData) r; StringBuilder s = new StringBuilder("cd:" + cd.nElements + ";" + fd(cd.nAtomsAll) + ";" + fd(cd.molarMass));
      for (int i = 0; i < cd.nElements; i++) s.append(";").append(cd.Elements[i]).append(":").append(fd(cd.massFractions[i])).append(":").append(fd(cd.nAtoms[i])); return s.toString(); }
    if (r instanceof compoundDataNIST) { compoundDataNIST cd = (compoundDataNIST) r; StringBuilder s = new StringBuilder("cn:" + hex(cd.name) + ";" + fd(cd.density));
      for (int i = 0; i < cd.nElements; i++) s.append(";").append(cd.Elements[i]).append(":").append(fd(cd.massFractions[i])); return s.toString(); }
    if (r instanceof radioNuclideData) { radioNuclideData n = (radioNuclideData) r; StringBuilder s = new StringBuilder("rn:" + hex(n.name) + ";" + n.Z + ";" + n.A + ";" + n.N + ";" + n.Z_xray);
      for (int i = 0; i < n.nXrays; i++) s.append(";x").append(n.XrayLines[i]).append(":").append(fd(n.XrayIntensities[i]));
      for (int i = 0; i < n.nGammas; i++) s.append(";g").append(fd(n.GammaEnergies[i])).append(":").append(fd(n.GammaIntensities[i])); return s.toString(); }
    if (r instanceof Crystal_Struct) { Crystal_Struct c = (Crystal_Struct) r; StringBuilder s = new StringBuilder("cs:" + hex(c.name) + ";" + fd(c.a) + ";" + fd(c.b) + ";" + fd(c.c) + ";" + fd(c.alpha) + ";" + fd(c.beta) + ";" + fd(c.gamma) + ";" + fd(c.volume));
      for (int i = 0; i < c.n_atom; i++) s.append(";").append(c.atom[i].Zatom).append(":").append(fd(c.atom[i].fraction)).append(":").append(fd(c.atom[i].x)).append(":").append(fd(c.atom[i].y)).append(":").append(fd(c.atom[i].z));
      return s.toString(); }
    return "?:" + r.getClass().getName();
  }

  /** what a caller may do with a result it owns: overwrite every mutable part.  If the implementation handed out its own tables instead of a copy,
   *  later calls of the stream answer differently from C (whose results are caller-owned memory). */
  static void scribble(Object r) {
    try {
      if (r instanceof compoundDataNIST) { compoundDataNIST c = (compoundDataNIST) r; Arrays.fill(c.Elements, -7); Arrays.fill(c.massFractions, -1.0); }
      else if (r instanceof compoundData) { compoundData c = (compoundData) r; Arrays.fill(c.Elements, -7); Arrays.fill(c.massFractions, -1.0); Arrays.fill(c.nAtoms, -1.0); }
      else if (r instanceof radioNuclideData) { radioNuclideData n = (radioNuclideData) r; Arrays.fill(n.XrayLines, 12345); Arrays.fill(n.XrayIntensities, -1.0); Arrays.fill(n.GammaEnergies, -1.0); Arrays.fill(n.GammaIntensities, -1.0); }
      else if (r instanceof Crystal_Struct) { Crystal_Struct c = (Crystal_Struct) r; Arrays.fill(c.atom, null); }
      else if (r instanceof String[]) Arrays.fill((String[]) r, "scribbled");
      else if (r instanceof double[]) Arrays.fill((double[]) r, Double.NaN);
    } catch (RuntimeException e) { /* immutable or null parts: nothing to overwrite */ }
  }

  static String process(String line, Map<String, List<Method>> methods, Map<String, Crystal_Struct> crystals) {
      String[] tok = line.split("\t", -1);
      List<Method> cand = methods.get(tok[0]);
      if (cand == null) return "X\tno-such-method";
      // tokens that are not passed on: array placeholders, out parameters
      List<String> a = new ArrayList<>();
      for (int i = 1; i < tok.length; i++) if (!tok[i].equals("-") && !tok[i].equals("N")) a.add(tok[i]);
      Method m = null;
      for (Method c : cand) if (c.getParameterCount() == a.size()) m = c;
      if (m == null) return "X\tno-such-arity\t" + a.size();
      Class<?>[] pt = m.getParameterTypes();
      Object[] args = new Object[pt.length];
      boolean skip = false;
      try {
        for (int i = 0; i < pt.length; i++) {
          String t = a.get(i);
          if (pt[i] == int.class) args[i] = Integer.parseInt(t);
          else if (pt[i] == double.class) args[i] = Double.parseDouble(t);
          else if (pt[i] == String.class) {
            if (t.equals("NULL")) { skip = true; }
            else if (t.startsWith("u:")) { String h = t.substring(2); byte[] b = new byte[h.length() / 2]; for (int q = 0; q < b.length; q++) b[q] = (byte) Integer.parseInt(h.substring(2 * q, 2 * q + 2), 16); args[i] = new String(b, StandardCharsets.UTF_8); }
            else args[i] = unhex(t.substring(2));
          }
          else if (pt[i] == Crystal_Struct.class) {
            if (t.equals("cNULL")) skip = true;
            else {
              Crystal_Struct cs = crystals.get(t);
              if (cs == null) { cs = t.startsWith("c:") ? Xraylib.Crystal_GetCrystal(unhex(t.substring(2))) : userCrystal(t); crystals.put(t, cs); }
              args[i] = cs;
            }
          }
          else { skip = true; }
        }
      } catch (Exception e) { return "X\tbad-arguments\t" + e; }
      if (skip) return "X\tskip";
      try {
        Object r = m.invoke(null, args);
        String s = "R\t" + enc(m.getReturnType() == void.class ? null : r) + "\tE\t-";
        scribble(r);
        return s;
      } catch (InvocationTargetException e) {
        Throwable c = e.getCause();
        return "R\t-\tE\t" + c.getClass().getSimpleName() + ":" + hex(String.valueOf(c.getMessage()));
      } catch (IllegalAccessException e) {
        return "X\tillegal-access";
      }
  }

  public static void main(String[] argv) throws Exception {
    if (argv.length >= 1 && argv[0].equals("--methods")) {
      // list "name arity" of every public static method, for the coverage comparison with the C headers
      for (Method m : Xraylib.class.getMethods()) if (Modifier.isStatic(m.getModifiers()) && m.getDeclaringClass() == Xraylib.class) System.out.println(m.getName() + " " + m.getParameterCount());
      return;
    }
    // a crystal object is obtained once per distinct token and then reused for every later call, as a program using the library would do
    if (argv.length >= 1 && argv[0].equals("--fields")) {
      // "name type value" of every public static int/double field of Xraylib (after class initialisation, i.e. with the data file loaded)
      for (Field f : Xraylib.class.getFields()) {
        if (!Modifier.isStatic(f.getModifiers())) continue;
        if (f.getType() == int.class) System.out.println(f.getName() + " int " + f.getInt(null));
        else if (f.getType() == double.class) System.out.println(f.getName() + " double " + Double.toHexString(f.getDouble(null)));
      }
      return;
    }
    Map<String, Crystal_Struct> crystals = new HashMap<>();
    Map<String, List<Method>> methods = new HashMap<>();
    for (Method m : Xraylib.class.getMethods()) if (Modifier.isStatic(m.getModifiers())) methods.computeIfAbsent(m.getName(), k -> new ArrayList<>()).add(m);
    BufferedReader in = new BufferedReader(new InputStreamReader(new FileInputStream(argv[0]), StandardCharsets.ISO_8859_1));
    PrintWriter out = new PrintWriter(new BufferedWriter(new OutputStreamWriter(new FileOutputStream(argv[1]), StandardCharsets.ISO_8859_1)));
    List<String> lines = new ArrayList<>();
    String line;
    while ((line = in.readLine()) != null) lines.add(line);
    final Map<String, List<Method>> M = methods;
    int T = argv.length >= 3 ? Integer.parseInt(argv[2]) : 1;
    final String[] res = new String[lines.size()];
    if (T <= 1) {
      for (int i = 0; i < lines.size(); i++) res[i] = process(lines.get(i), M, crystals);
    } else {
      // the same stream dealt round-robin to T threads (each with its own crystal objects): the answers must be those of the serial run
      Thread[] th = new Thread[T];
      final List<String> L = lines;
      for (int k = 0; k < T; k++) {
        final int kk = k, TT = T;
        th[k] = new Thread(() -> { Map<String, Crystal_Struct> own = new HashMap<>(); for (int i = kk; i < L.size(); i += TT) res[i] = process(L.get(i), M, own); });
        th[k].start();
      }
      for (Thread x : th) x.join();
    }
    for (String r : res) out.println(r);
    out.close();
  }
}
