package org.apache.commons.math3.complex;

/** Minimal stand-in for commons-math3 Complex: the only external class java/*.java uses (constructor + accessors). */
public class Complex {
  private final double re, im;
  public Complex(double re, double im) { this.re = re; this.im = im; }
  public Complex(double re) { this(re, 0.0); }
  public double getReal() { return re; }
  public double getImaginary() { return im; }
  public double abs() { return Math.hypot(re, im); }
  public String toString() { return "(" + re + ", " + im + ")"; }
}
