"""C10 - grouped line energies and rates are the stated averages of their member lines.
Exhaustive Z x group macros; members are decided from the *names*, their energies/rates come from the public single-line accessors."""
import re
import common, xrl
from common import Stats, mix

TOL = 1e-13
DOUBLETS = ["L1N67", "L1O45", "L1P23", "L2P23", "L3O45", "L3P23", "L3P45"]
LB_MEMBERS = ["L2M4", "L3N5", "L1M3", "L1M2", "L3O45", "L3N1", "L3O1", "L1M5", "L1M4", "L3N4", "L2M3", "L3N6", "L3N7"]
# IUPAC 1991 "Nomenclature system for X-ray spectroscopy" table VIII.2 (Siegbahn -> IUPAC), as documented in xraylib.h
SIEGBAHN = dict(KA1="KL3", KA2="KL2", KA3="KL1", KB1="KM3", KB2="KN3", KB3="KM2", KB4="KN5", KB5="KM5",
                LA1="L3M5", LA2="L3M4", LB1="L2M4", LB2="L3N5", LB3="L1M3", LB4="L1M2", LB5="L3O45", LB6="L3N1", LB7="L3O1",
                LB9="L1M5", LB10="L1M4", LB15="L3N4", LB17="L2M3", LG1="L2N4", LG2="L1N2", LG3="L1N3", LG4="L1O3", LG5="L2N1",
                LG6="L2O4", LG8="L2O1", LE="L2M1", LH="L2M1", LL="L3M1", LS="L3M3", LT="L3M2", LU="L3N6", LV="L2N6",
                MA1="M5N7", MA2="M5N6", MB="M4N6", MG="M3N5")


def members_of(group, line_names):
    """member line names, decided from names only"""
    if group == "KA":
        return ["KL1", "KL2", "KL3"]
    if group == "KB":
        return [n for n in line_names if re.fullmatch(r"K[MNOP][1-7]?", n)]
    if group == "LA":
        return ["L3M4", "L3M5"]
    if group == "LB":
        return list(LB_MEMBERS)
    m = re.fullmatch(r"(L[123][NOP])([1-7])([1-7])", group)
    return [m.group(1) + m.group(2), m.group(1) + m.group(3)]


class Env:
    def __init__(self, lib_path, src):
        self.h = xrl.Headers(src)
        self.L = xrl.Lib(lib_path, self.h)
        lines = self.h.family("_LINE", "xraylib-lines.h")
        self.line = {n[:-5]: v for n, v in lines.items()}
        for g in ("KA", "KB", "LA", "LB"):
            self.line[g] = self.h.val[g + "_LINE"]
        self.shell = {n[:-6]: v for n, v in self.h.family("_SHELL", "xraylib-shells.h").items()}
        self.iupac_names = [n for n in self.line if n not in ("KA", "KB", "LA", "LB")]

    def E(self, z, name):
        return self.L.val("LineEnergy", z, self.line[name])

    def R(self, z, name):
        return self.L.val("RadRate", z, self.line[name])


def weighted(env, z, group):
    """-> (expected or None, members-with-energy, non-trivial?)"""
    mem = members_of(group, env.iupac_names)
    es, ws = [], []
    for m in mem:
        e = env.E(z, m)
        if e is None:
            continue
        if group == "LB":
            edge = env.L.val("EdgeEnergy", z, env.shell[m[:2]])
            w = env.L.val("CS_FluorLine", z, env.line[m], edge + 0.1) if edge is not None else None
        else:
            w = env.R(z, m)
        es.append(e)
        ws.append(w or 0.0)
    if not es:
        return None, es, False
    W = sum(ws)
    if W > 0:
        exp = sum(w * e for w, e in zip(ws, es)) / W
    else:
        exp = sum(es) / len(es)
    return exp, es, (len(set(es)) >= 2)


def eval_case(env, z, what, group):
    """-> (expected, got, err, ok, nontrivial)   expected None = error"""
    L = env.L
    nt = False
    if what == "energy":
        if group in ("KO", "KP"):
            exp = env.E(z, group + "1")
            nt = exp is not None
        else:
            exp, es, nt = weighted(env, z, group)
        got, err = L.call("LineEnergy", z, env.line[group])
        if exp is None:
            ok = err is not None and got == 0.0
        else:
            ok = err is None and xrl.relerr(got, exp) <= TOL
            if ok and group not in ("KO", "KP"):
                ok = min(es) * (1 - 1e-15) <= got <= max(es) * (1 + 1e-15)
        return exp, got, err, ok, nt
    # rates
    if group == "KA":
        s = sum((env.R(z, m) or 0.0) for m in ("KL1", "KL2", "KL3"))
        exp = s if s > 0 else None
    elif group == "KB":
        s = sum((env.R(z, m) or 0.0) for m in ("KL1", "KL2", "KL3"))
        exp = (1.0 - s) if (0 < s < 1.0) else None
    elif group == "LA":
        s = (env.R(z, "L3M4") or 0.0) + (env.R(z, "L3M5") or 0.0)
        exp = s if s > 0 else None
    got, err = L.call("RadRate", z, env.line[group])
    if exp is None:
        ok = err is not None and got == 0.0
    else:
        ok = err is None and xrl.relerr(got, exp) <= TOL
    return exp, got, err, ok, exp is not None


def run(ctx):
    ctx.rule = ("exhaustive: Z in [-1,122] x {KA,KB,LA,LB, 7 IUPAC doublets, KO, KP} for LineEnergy and {KA,KB,LA} for RadRate, plus the "
                "39 Siegbahn aliases against the IUPAC table; every composed line directly after every other composed line of the same and the neighbouring elements; members decided from names, member values from the public single-line "
                "accessors; tolerance 1e-13 and result within [min,max] of member energies. non-trivial = group with >=2 members of "
                "different energy (energies) / available rate (rates); distinct by (Z, group)")
    ctx.exhaustive = True
    b = ctx.build("plain", "A")
    env = Env(b["lib"], b["src"])
    st = ctx.stats
    env.L.shadow_start(mix(ctx.seed, "c10-shadow") % (2**31), cap=200000)     # every query of this run is asked again at the end (lib/xrl.py)
    # aliases (header level)
    for a, target in SIEGBAHN.items():
        st.ev()
        st.nt()
        v = env.h.val.get(a + "_LINE")
        if v is None or v != env.line.get(target):
            st.violation("alias:%s_LINE" % a, dict(alias=a), expected="%s_LINE=%r" % (target, env.line.get(target)), got=v)
    st.sample("alias", dict(alias="KA1_LINE", iupac="KL3_LINE", value=env.h.val.get("KA1_LINE")))
    groups_e = ["KA", "KB", "LA", "LB"] + DOUBLETS + ["KO", "KP"]
    for z in range(-1, 123):
        for what, groups in (("energy", groups_e), ("rate", ["KA", "KB", "LA"])):
            for g in groups:
                exp, got, err, ok, nt = eval_case(env, z, what, g)
                st.ev()
                case = dict(z=z, what=what, group=g)
                if nt:
                    st.nt()
                    st.sample("%s:%s" % (what, g), dict(case, expected=exp, got=got), cap=1)
                st.cls("%s:%s" % (what, "value" if exp is not None else "error"))
                if not ok:
                    kind = "value" if exp is not None else "noerror"
                    st.violation("%s:%s:%s" % (kind, what, g), case, expected=exp if exp is not None else "error and 0.0",
                                 got=dict(value=got, error=err))
    # every composed line directly after every other composed line of the same and of the neighbouring elements: the answers judged above,
    # bit for bit (a remembered "last composed line" keyed by some packing of element and line meets every pair of keys here)
    saved, env.L._shadow = env.L._shadow, None
    ref = {}
    for z in range(-1, 123):
        for g in groups_e:
            ref[(z, g)] = env.L.call("LineEnergy", z, env.line[g])
    same = lambda a, b: a == b or (a != a and b != b)
    bad = False
    for z in range(0, 122):
        for dz in (-1, 0, 1):
            for g1 in groups_e:
                for g2 in groups_e:
                    env.L.call("LineEnergy", z, env.line[g1])
                    v, e = env.L.call("LineEnergy", z + dz, env.line[g2])
                    st.ev()
                    r = ref[(z + dz, g2)]
                    if not bad and (not same(v, r[0]) or (e is None) != (r[1] is None)):
                        st.violation("order-dependence:LineEnergy", dict(fn="LineEnergy", args=[z + dz, env.line[g2]], previous_call=["LineEnergy", z, env.line[g1]],
                                                                        groups=[g1, g2]), dict(value=r[0], error=r[1] is not None), dict(value=v, error=e))
                        bad = True
    st.cls("composed_pairs", 122 * 3 * len(groups_e) ** 2)
    env.L._shadow = saved
    env.L.shadow_check(st)
    ctx.assumptions = ["member energies/rates of single lines are correct (C01)", "CS_FluorLine weights for L-beta are correct (C09)",
                       "the RadRate of LB_LINE is not specified by the property and is not judged"]


def replay(ctx, rec):
    c = rec["case"]
    b = ctx.build("plain", "A")
    env = Env(b["lib"], b["src"])
    if "alias" in c:
        return env.h.val.get(c["alias"] + "_LINE") == env.line.get(SIEGBAHN[c["alias"]])
    exp, got, err, ok, nt = eval_case(env, c["z"], c["what"], c["group"])
    print("replay %s expected=%r got=%r err=%r" % (c, exp, got, err))
    return ok
