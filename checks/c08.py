"""C08 - Kissel XRF cross sections equal the cascade model built from the primitives.
Reference recursion over public primitives only (CS_Photo_Partial, FluorYield, RadRate, CosKronTransProb, AugerYield, AugerRate); Auger
terms are selected by parsing the transition names in xraylib-auger.h.  Configuration B (Kissel regenerated) and A (all calls fail)."""
import ctypes, math, os, random, re
import common, xrl
from common import Stats, mix

TOL = 1e-9
SHELLS = ["K", "L1", "L2", "L3", "M1", "M2", "M3", "M4", "M5"]
KINDS = {"none": "no_Cascade", "rad": "Radiative_Cascade", "auger": "Nonradiative_Cascade", "full": "Cascade"}
HELPER_KIND = {"pure": "none", "rad_cascade": "rad", "auger_cascade": "auger", "full_cascade": "full"}
LB_MEMBERS = ["L2M4", "L3N5", "L1M3", "L1M2", "L3O45", "L3N1", "L3O1", "L1M5", "L1M4", "L3N4", "L2M3", "L3N6", "L3N7"]
CK = {("L1", "L2"): ["FL12"], ("L1", "L3"): ["FL13", "FLP13"], ("L2", "L3"): ["FL23"]}
for _a in "12 13 14 15 23 24 25 34 35 45".split():
    CK[("M" + _a[0], "M" + _a[1])] = ["FM" + _a]


class Env:
    def __init__(self, lib_path, src):
        self.h = h = xrl.Headers(src)
        self.L = xrl.Lib(lib_path, h)
        self.line = {n[:-5]: x for n, x in h.family("_LINE", "xraylib-lines.h").items()}
        for g in ("KA", "KB", "LA", "LB"):
            self.line[g] = h.val[g + "_LINE"]
        self.name_of_line = {}
        for n, x in self.line.items():
            self.name_of_line.setdefault(x, n)
        self.shell = {n[:-6]: x for n, x in h.family("_SHELL", "xraylib-shells.h").items()}
        self.ck = {n[:-6]: x for n, x in h.family("_TRANS", "xraylib.h").items()}
        self.auger = []
        for n, x in h.family("_AUGER", "xraylib-auger.h").items():
            m = re.fullmatch(r"([KLMNOPQ][1-7]?)_([KLMNOPQ][1-7]?)([KLMNOPQ][1-7]?)_AUGER", n)
            if m:
                self.auger.append((x, m.group(1), m.group(2), m.group(3)))
        self.avog = h.val["AVOGNUM"]
        self.zmax = h.val["ZMAX"]
        # where the Kissel tables end: the total table and every sub-shell table of an element have their own last abscissa (a few eV apart),
        # the slivers between them are argument regions of their own
        self.table_ends = {}
        try:
            for z, d in xrl.DataFiles(src).kissel(h.val.get("SHELLNUM_K", 31)).items():
                ends = {math.exp(d["total"][0][-1])} | {math.exp(p[1][-1]) for p in d["partial"].values() if len(p[1])}
                self.table_ends[z] = sorted(ends)
        except Exception:
            self.table_ends = {}
        # exported helper functions (declared in src/xrf_cross_sections_aux.h, not in the public headers)
        self.helpers = {}
        p = os.path.join(src, "src", "xrf_cross_sections_aux.h")
        if os.path.exists(p):
            t = xrl.strip_comments(open(p).read())
            for m in re.finditer(r"double\s+(P(K|L[123]|M[1-5])_(pure|rad_cascade|auger_cascade|full_cascade)_kissel)\s*\(([^)]*)\)", t):
                name, target, kind, args = m.group(1), m.group(2), m.group(3), m.group(4)
                params = [a.split()[-1] for a in args.split(",")]
                ups = [a[1:] for a in params[2:-1]]
                try:
                    f = getattr(self.L.dll, name)
                except AttributeError:
                    continue
                f.restype = ctypes.c_double
                f.argtypes = [ctypes.c_int, ctypes.c_double] + [ctypes.c_double] * len(ups) + [ctypes.c_void_p]
                self.L.fn[name] = f
                self.helpers[name] = (target, HELPER_KIND[kind], ups)
        self._T = {}

    def v(self, fn, *a):
        return self.L.val(fn, *a)

    def transfer(self, z):
        """T[kind][(S, s)] for S in inner principal shells of s, and ck[(s', s)]"""
        if z in self._T:
            return self._T[z]
        v = self.v
        T = dict(rad={}, auger={}, full={}, ck={})
        for (a, b), names in CK.items():
            T["ck"][(a, b)] = sum((v("CosKronTransProb", z, self.ck[n]) or 0.0) for n in names)
        fy = {s: v("FluorYield", z, self.shell[s]) or 0.0 for s in SHELLS}
        ay = {s: v("AugerYield", z, self.shell[s]) or 0.0 for s in SHELLS}
        rates = {}
        for (x, S, X, Y) in self.auger:
            r = v("AugerRate", z, x)
            if r:
                rates[(S, X, Y)] = r
        for s in SHELLS[1:]:
            for S in SHELLS:
                if S[0] >= s[0]:
                    continue  # only inner principal shells (K < L < M)
                ln = self.line.get(S + s)
                rr = (v("RadRate", z, ln) or 0.0) if ln is not None else 0.0
                trad = fy[S] * rr
                asum = 0.0
                for (S2, X, Y), r in rates.items():
                    if S2 == S:
                        asum += ((X == s) + (Y == s)) * r
                taug = ay[S] * asum
                T["rad"][(S, s)] = trad
                T["auger"][(S, s)] = taug
                T["full"][(S, s)] = trad + taug
        T["fy"] = fy
        self._T[z] = T
        return T

    def vacancies(self, z, E, kind):
        """reference P_kind(s) for the nine shells: None where the shell cannot be ionised"""
        T = self.transfer(z)
        P = {}
        for s in SHELLS:
            ph = self.v("CS_Photo_Partial", z, self.shell[s], E)
            if ph is None:
                P[s] = None
                continue
            tot = ph
            for S in SHELLS:
                if S == s:
                    break
                if P.get(S) is None or not (P[S] > 0):
                    continue
                if S[0] == s[0]:
                    tot += T["ck"].get((S, s), 0.0) * P[S]
                elif kind != "none":
                    tot += T[kind].get((S, s), 0.0) * P[S]
            P[s] = tot
        return P


def line_shell(name):
    if name in ("KA", "KB") or name[0] == "K":
        return "K"
    if name == "LA":
        return "L3"
    if name[:2] in SHELLS:
        return name[:2]
    return None


def judge(st, env, config, fn, args, exp, label, tol=TOL):
    st.ev()
    got, err = env.L.call(fn, *args)
    case = dict(config=config, fn=fn, args=list(args), name=label)
    if exp is None:
        st.cls("error_expected")
        if err is None or got != 0.0:
            st.violation("noerror:" + sigof(fn, label), case, "error and 0.0", dict(value=got, error=err))
        return None
    st.cls("value")
    if err is not None:
        st.violation("spurious-error:" + sigof(fn, label), case, exp, dict(value=got, error=err))
        return None
    if not math.isfinite(got) or xrl.relerr(got, exp) > tol:
        st.violation("value:" + sigof(fn, label), case, exp, got)
        return None
    return got


def sigof(fn, label):
    base = fn.replace("CSb_", "CS_")
    if label in SHELLS:
        return "%s:%s" % (base, label)
    if label in ("KA", "KB", "LA", "LB"):
        return "%s:%s" % (base, label)
    sh = line_shell(label) if label else None
    return "%s:line-%s" % (base, sh or "other")


def energies(env, z, rng, nrand):
    es = set()
    if 1 <= z <= env.zmax:
        for s in SHELLS:
            e = env.v("EdgeEnergy", z, env.shell[s])
            if e:
                es.update([e * (1 - 1e-6), e, e * (1 + 1e-6), e + 0.05])
    es.update([0.0, -1.0, 1e-300, 1e300, 0.1, 1.0, 10.0, 100.0, 200.0, 299.0, 1000.0])
    ends = env.table_ends.get(z, [])
    for e in ends:
        es.update([e * (1 - 1e-9), e * (1 + 1e-9)])
    es.update(0.5 * (a + b) for a, b in zip(ends, ends[1:]))
    for _ in range(nrand):
        es.add(math.exp(math.log(0.05) + rng.random() * (math.log(300.0) - math.log(0.05))))
    return sorted(es)


def work(item):
    config, lib_path, src, zs, seed, quick = item
    env = Env(lib_path, src)
    st = Stats()
    lmin, lmax = min(env.line.values()), max(env.line.values())
    macros = list(range(lmin - 2, lmax + 3))
    for z in zs:
        rng = random.Random(mix(seed, "c08", z))
        zin = 1 <= z <= env.zmax
        aw = env.v("AtomicWeight", z) if zin else None
        T = env.transfer(z) if zin else None
        Es = energies(env, z, rng, 3 if quick else 25)
        for ie, E in enumerate(Es):
            Pk = {k: (env.vacancies(z, E, k) if (zin and E > 0) else {s: None for s in SHELLS}) for k in KINDS}
            inner_live = False
            shellval = {}
            for k, suffix in KINDS.items():
                P = Pk[k]
                for s in SHELLS + ["N1", None]:
                    sv = env.shell[s] if s else -1
                    exp = None
                    if s in SHELLS and P.get(s) is not None and T["fy"][s] > 0:
                        exp = T["fy"][s] * P[s]
                    shellval[(k, s)] = exp
                    fn = "CS_FluorShell_Kissel_" + suffix
                    got = judge(st, env, config, fn, (z, sv, E), exp, s)
                    expb = exp * aw / env.avog if (exp is not None and aw) else None
                    judge(st, env, config, fn.replace("CS_", "CSb_"), (z, sv, E), expb, s)
                    if got is not None and s in SHELLS:
                        live = any(P.get(S) and S[0] < s[0] for S in SHELLS)
                        if live and k != "none":
                            st.nt_key(fn, z, sv, round(E, 9))
                            st.sample("shell:%s:%s" % (k, s), dict(config=config, fn=fn, Z=z, E=E, expected=exp, got=got), cap=1)
                    if k == "full":
                        judge(st, env, config, "CS_FluorShell_Kissel", (z, sv, E), exp, s)
                        judge(st, env, config, "CSb_FluorShell_Kissel", (z, sv, E), expb, s)
            # orderings between variants (consequence of the model, checked on the library's own outputs)
            if zin and E > 0:
                for s in SHELLS:
                    vals = {k: env.v("CS_FluorShell_Kissel_" + KINDS[k], z, env.shell[s], E) for k in KINDS}
                    if None in vals.values():
                        continue
                    st.ev()
                    sl = 1 + 1e-12
                    if not (vals["none"] <= vals["rad"] * sl and vals["none"] <= vals["auger"] * sl and vals["rad"] <= vals["full"] * sl
                            and vals["auger"] <= vals["full"] * sl):
                        st.violation("ordering:" + s, dict(config=config, Z=z, shell=s, E=E), "none<=rad,auger<=full", vals)
                    if s == "K" and len(set(vals.values())) != 1:
                        st.violation("ordering:K-variants-differ", dict(config=config, Z=z, E=E), "all equal", vals)
            # lines
            if quick and (ie % 3 != z % 3):
                continue
            if E <= 0 and ie > 0:
                continue
            for k, suffix in list(KINDS.items()) + [("full", None)]:
                fn = "CS_FluorLine_Kissel" + ("_" + suffix if suffix else "")
                for m in macros:
                    name = env.name_of_line.get(m)
                    exp = None
                    if name == "LB":
                        tot = 0.0
                        for mem in LB_MEMBERS:
                            sv_ = shellval.get((k, line_shell(mem)))
                            rr = env.v("RadRate", z, env.line[mem]) if zin else None
                            if sv_ is not None and rr is not None:
                                tot += sv_ * rr
                        exp = tot if tot != 0.0 else None
                    elif name is not None and zin:
                        sh = line_shell(name)
                        rr = env.v("RadRate", z, m) if sh else None
                        sv_ = shellval.get((k, sh))
                        if rr is not None and sv_ is not None:
                            exp = rr * sv_
                    got = judge(st, env, config, fn, (z, m, E), exp, name, 1e-9)
                    expb = exp * aw / env.avog if (exp is not None and aw) else None
                    judge(st, env, config, fn.replace("CS_", "CSb_"), (z, m, E), expb, name, 1e-9)
                    if got is not None:
                        st.nt_key(fn, z, m, round(E, 9))
                        if name in ("KA", "LB", "L3M5", "M5N7", "M3Q1"):
                            st.sample("line:%s:%s" % (k, name), dict(config=config, fn=fn, Z=z, line=name, E=E, expected=exp, got=got), cap=1)
    # energy-outer / element-inner pass: consecutive calls with identical E and different Z (a memo keyed on too few arguments shows only here)
    if not quick or True:
        zl = [z for z in zs if 1 <= z <= env.zmax]
        rng2 = random.Random(mix(seed, "c08x", zs[0] if zs else 0))
        for E in (3.0, 9.0, 21.0, 40.0, 95.0, 140.0):
            rng2.shuffle(zl)
            for z in zl:
                T = env.transfer(z)
                for k, suffix in KINDS.items():
                    P = env.vacancies(z, E, k)
                    for s in ("L3", "M5", "L1", "M2"):
                        exp = T["fy"][s] * P[s] if (P.get(s) is not None and T["fy"][s] > 0) else None
                        got = judge(st, env, config, "CS_FluorShell_Kissel_" + suffix, (z, env.shell[s], E), exp, s)
                        if got is not None:
                            st.nt_key("xz", z, s, k, E)
    for z in zs:
        zin = 1 <= z <= env.zmax
        T = env.transfer(z) if zin else None
        rng = random.Random(mix(seed, "c08h", z))
        Es = energies(env, z, rng, 3 if quick else 25)
        aw = env.v("AtomicWeight", z) if zin else None
        # exported helpers: affine in the upstream vacancies with slope T_kind
        if zin:
            for name, (target, kind, ups) in env.helpers.items():
                for E in [e for e in Es if e > 0][:: (4 if quick else 1)]:
                    ph = env.v("CS_Photo_Partial", z, env.shell[target], E)
                    for trial in range(2):
                        vals = [0.0 if (trial == 0 and rng.random() < 0.3) else rng.uniform(0.0, 50.0) for _ in ups]
                        exp = None
                        if ph is not None:
                            exp = ph
                            for S, pv in zip(ups, vals):
                                if pv > 0:
                                    coef = T["ck"].get((S, target), 0.0) if S[0] == target[0] else (0.0 if kind == "none" else T[kind].get((S, target), 0.0))
                                    exp += coef * pv
                        got = judge(st, env, config, name, tuple([z, E] + vals), exp, target, 1e-9)
                        if got is not None and any(vals):
                            st.nt_key(name, z, round(E, 9), trial)
                            st.sample("helper:" + name, dict(config=config, fn=name, Z=z, E=E, upstream=dict(zip(ups, vals)), expected=exp, got=got), cap=1)
    return st


def run(ctx):
    import c01
    ctx.rule = ("Z in [-1,122] x 9 shells (+N1, -1) x 5 variants x {cm2/g, barn} at energies {each K..M5 edge x(1-1e-6, 1, 1+1e-6), +0.05 keV, "
                "0.1..1000 keV decades, 0, -1, 1e+-300, seeded draws}; all line macros in [lo-2,hi+2] incl. KA/KB/LA/LB (a third of the energies "
                "per Z in the quick tier); the 32 exported P<shell>_* helpers with generated upstream vacancies (affine, slope = transfer "
                "coefficient); configuration B (values) and A (every call must fail). Tolerance 1e-9 (constants pass a %.10E print). "
                "non-trivial = successful evaluation in which at least one inner shell is ionised (cascade terms live) or a successful line / "
                "helper evaluation; distinct by (entry, Z, shell/line, E)")
    builds = c01.prepare(ctx)
    zs = list(range(-1, 123))
    items = []
    for cfg in ("B", "A"):
        n = 32 if cfg == "B" else 8
        for i in range(n):
            items.append((cfg, builds[cfg]["lib"], builds[cfg]["src"], zs[i::n], ctx.seed, ctx.quick or cfg == "A"))
    ctx.stats.merge(common.pmap(work, items))
    ctx.assumptions = ["primitives are decided by C01/C02/C11", "transfer constants carry one %.10E rounding (1e-9 tolerance)",
                       "'inner shell' = lower principal quantum number; same-shell feeding is Coster-Kronig only"]


def replay(ctx, rec):
    import c01
    c = rec["case"]
    builds = c01.prepare(ctx)
    cfg = c.get("config", "B")
    z = c.get("Z", c.get("args", [1])[0])
    st = work((cfg, builds[cfg]["lib"], builds[cfg]["src"], [z], rec.get("seed", ctx.seed), False))
    bad = [v for v in st.violations if v["sig"] == rec["signature"]]
    for v in bad[:3]:
        print("replay:", v)
    return not bad
