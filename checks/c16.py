"""C16 - queries are pure: results do not depend on call history and leave no trace.
Seeded random histories over the whole API (successful and failing calls, XRayInit, parser, catalogue lookups, crystal copies, _CP functions,
deprecated stubs) are executed in one process; every step's result is compared bit for bit with the same call executed alone in a child forked
from a parent that never called the library.  Before/after each history: FNV hash of every data/bss/rodata section that libxrl.a contributed
to the executable (from the link map), locale strings, working directory, captured stdout/stderr, and all error objects obtained on the way."""
import os, random, re
import common, vbuild, calls, apigen, apisweep, c03
from common import Stats, mix

VERIF = common.VERIF
DEPRECATION = re.compile(rb"^(?:(?:SetHardExit|SetExitStatus|GetExitStatus|SetErrorMessages|GetErrorMessages) has been deprecated and will be removed in a future release of xraylib\.\n"
                         rb"Please remove all occurrences of this method in your code\.\n)*$")


def library_ranges(mapfile):
    """[(addr, size)] of .data/.bss/.rodata/COMMON input sections that come from libxrl.a"""
    out = []
    lines = open(mapfile, errors="replace").read().split("\n")
    i = 0
    rx = re.compile(r"^\s*(\.data\S*|\.bss\S*|\.rodata\S*|COMMON|\.tbss\S*|\.tdata\S*)\s*(?:0x([0-9a-f]+)\s+0x([0-9a-f]+)\s+(\S.*))?$")
    rx2 = re.compile(r"^\s+0x([0-9a-f]+)\s+0x([0-9a-f]+)\s+(\S.*)$")
    while i < len(lines):
        m = rx.match(lines[i])
        if m:
            addr, size, where = m.group(2), m.group(3), m.group(4)
            if addr is None and i + 1 < len(lines):
                m2 = rx2.match(lines[i + 1])
                if m2:
                    addr, size, where = m2.group(1), m2.group(2), m2.group(3)
                    i += 1
            if addr and "libxrl.a(" in (where or "") and int(size, 16) > 0 and int(addr, 16) > 0:
                out.append((int(addr, 16), int(size, 16), where))
        i += 1
    return out


def make_history(h, desc, vals, fns, rng, length):
    steps = []
    hand_made = rng.random() < 0.4      # in such a history every generated crystal is a hand-made struct whose volume member was left at 0
    if rng.random() < 0.15:
        # one object, many questions: every crystal function on the same generated crystal (shared object in the history), in random order, twice
        cfns = [f for f in fns if "Crystal_Struct*" in desc[f]["args"]]
        tok = None
        for f in cfns * 2:
            sw = apisweep.sweep(h, desc, vals, f, 6, True)
            cand = [(k, a) for k, a in sw if isinstance(a[0], str) and a[0].startswith("g:")]
            if not cand:
                continue
            k, a = rng.choice(cand)
            tok = tok or a[0]
            a = [("h:" + tok[2:]) if hand_made else tok] + list(a[1:])
            steps.append((f, k, a))
        rng.shuffle(steps)
    while len(steps) < length:
        if rng.random() < 0.06:
            # a collection owned by the history step alone (init, load a generated file, add, list, look up, free): leaves nothing behind, so it is a
            # query like any other; some files carry a number no double can hold, some are malformed
            import c17
            l = c17.private_array_line(rng)
            if rng.random() < 0.3:
                name, cap, text, q = l.split("\t")
                s = bytes.fromhex(text[2:]).decode("latin-1").replace("#UCELL ", "#UCELL 1e999 ", 1)
                l = "\t".join([name, cap, calls.hx(s), q])
            steps.append(("@private_array", None, l))
            continue
        fn = rng.choice(fns)
        sw = apisweep.sweep(h, desc, vals, fn, 6, True)
        if not sw:
            continue
        kinds, args = rng.choice(sw)
        if args and isinstance(args[0], str) and args[0].startswith("g:") and hand_made:
            args = ["h:" + args[0][2:]] + list(args[1:])      # the same generated cell as a hand-made struct with its volume member left at 0
        steps.append((fn, kinds, args))
        if rng.random() < 0.5 and kinds:
            # burst of related calls: same function, one argument varied (exposes memoisation keyed on too few arguments)
            others = [a for k, a in sw if k == kinds]
            pos = rng.randrange(len(kinds))
            for _ in range(rng.randint(3, 7)):
                o = rng.choice(others)
                a2 = list(args)
                a2[pos] = o[pos]
                if hand_made and isinstance(a2[0], str) and a2[0].startswith("g:"):
                    a2[0] = "h:" + a2[0][2:]
                steps.append((fn, kinds, a2))
                if rng.random() < 0.4:
                    steps.append((fn, kinds, list(args)))
        names = [n for tp, n in zip(desc[fn]["args"], desc[fn]["argnames"]) if tp != "xrl_error**"]
        small = [i for i, n in enumerate(names) if (n or "").endswith(("_flag",))]
        if small and rng.random() < 0.7:
            # switch sweep: every value of every small-domain switch argument in turn, each between two calls with all switches fully on
            # (what one call leaves behind for the next - scratch arrays, memoised terms - must not show in a call that switches a term off)
            base = list(args)
            for i in small:
                base[i] = 2
            good = [a for k, a in sw if k == kinds and isinstance(a[0], str) and a[0] != "cNULL" and isinstance(a[1], float) and 0.5 < a[1] < 200]
            if good:
                g = rng.choice(good)
                for i in range(len(base)):
                    if i not in small:
                        base[i] = g[i]
            for i in small:
                for v in (0, 1, 2, -1, 3):
                    a2 = list(base)
                    a2[i] = v
                    steps.append((fn, kinds, list(base)))
                    steps.append((fn, kinds, a2))
    # repeated queries at distance: re-issue a few earlier steps later in the history
    for _ in range(max(2, length // 8)):
        k = rng.randrange(0, max(1, len(steps) // 2))
        steps.append(steps[k])
    return steps


COMMA = None      # dict(LOCPATH, name) of the comma-decimal locale built by run(), or None when localedef is unavailable


def work(item):
    exe, src, rangesf, seed, nhist, length, sdir, tag = item
    st = Stats()
    h, desc = apigen.descriptors(src)
    desc = dict(desc)
    desc["add_compound_data"] = dict(ret="struct compoundData*", args=["const char*", "double", "const char*", "double"], argnames=["compound", "weightA", "compound", "weightB"])
    vals = apisweep.Values(h, src, mix(seed, "c16", tag))
    vals.nist_names, vals.nuc_names, vals.crystal_names = c03.catalogue_names(exe, sdir, tag)
    rng = random.Random(mix(seed, "c16h", tag))
    fns = sorted(desc)
    for hi in range(nhist):
        steps = make_history(h, desc, vals, fns, rng, rng.randint(10, length))
        lines = [args if fn == "@private_array" else calls.line(fn, kinds, args) for fn, kinds, args in steps]
        # every second history runs under a locale whose decimal separator is a comma (lib/localetool.py), reference process included
        lenv = dict(XRLCALL_LOCALE=COMMA["name"], LOCPATH=COMMA["LOCPATH"]) if (COMMA and hi % 2 == 1) else None
        if lenv:
            st.cls("histories_under_comma_locale")
        out_h, rc1, err1 = calls.run(exe, "history", lines, sdir, tag + "_h", extra_args=[rangesf], env=lenv)
        out_f, rc2, err2 = calls.run(exe, "fresh", lines, sdir, tag + "_f", env=lenv)
        hist_desc = [l.replace("\t", " ")[:100] for l in lines]
        if rc1 != 0 or not out_h or not out_h[-1].startswith("STATE") or len(out_h) != len(lines) + 1 or len(out_f) != len(lines):
            st.violation("history-crash", dict(history=hist_desc[:80]), "history executes", (err1 or err2)[-1500:])
            continue
        state = out_h[-1].split("\t")
        ck0, ck1, loc_ok, cwd_ok, errs_ok, serr, sout = state[1], state[2], state[3] == "1", state[4] == "1", state[5] == "1", state[6], state[7]
        nerr, nranges = int(state[8]), int(state[9])
        n_fail = n_alloc = 0
        for k, ((fn, kinds, args), a, b) in enumerate(zip(steps, out_h, out_f)):
            st.ev()
            if a != b:
                st.violation("history-dependence:" + fn, dict(step=k, call=hist_desc[k], history=hist_desc[:k + 1][-40:]), b[:200], a[:200])
                break
            if "\tE\t-" not in a:
                n_fail += 1
            if a.startswith(("R\tcd:", "R\tcn:", "R\trn:", "R\tcs:", "R\tl:", "R\ts:")) or "_CP" in fn or fn.startswith("Refractive"):
                n_alloc += 1
        st.ev()
        if ck0 != ck1:
            tables_same = len(state) > 11 and state[11] == "1"
            st.violation("trace-left:static-state-outside-the-tables" if tables_same else "tables-modified", dict(history=hist_desc[:60]), ck0, ck1)
        if nranges == 0:
            st.violation("infra:no-library-ranges", dict(), "> 0 ranges", 0)
        if not loc_ok:
            st.violation("locale-changed", dict(history=hist_desc[:60]), "locale unchanged", None)
        if not cwd_ok:
            st.violation("cwd-changed", dict(history=hist_desc[:60]), "cwd unchanged", None)
        if len(state) > 10 and state[10] != "1":
            st.violation("process-environment-changed", dict(history=hist_desc[:60]), "floating-point rounding mode / trap mask, umask, the caller's strtok() walk and rand() sequence unchanged", None)
        if not errs_ok:
            st.violation("error-object-modified", dict(history=hist_desc[:60]), "error objects untouched by later calls", None)
        if sout != "-":
            st.violation("stdout-output", dict(history=hist_desc[:60]), "nothing on stdout", bytes.fromhex(sout)[:200])
        if serr != "-" and not DEPRECATION.match(bytes.fromhex(serr)):
            st.violation("stderr-output", dict(history=hist_desc[:60]), "only deprecation diagnostics on stderr", bytes.fromhex(serr)[:300])
        if n_fail >= 1 and n_alloc >= 1:
            st.nt_key(tuple(lines))
        st.cls("histories")
        st.cls("steps", len(lines))
        st.cls("error_objects_kept", nerr)
        st.sample("history", dict(length=len(lines), failing=n_fail, allocating=n_alloc, first=hist_desc[:6]), cap=2)
    return st


def work_orders(item):
    """the argument sweep of a group of functions (every value of every discrete class, structured continuous values) executed as ONE history in
    generation order and again in a shuffled order: every call must answer bit-identically in both, and the library's data must hash the same
    before and after.  Reaches (function, special value) pairs - one line macro out of 400, one shell - that random histories rarely draw."""
    exe, src, rangesf, seed, budget, fns, sdir, tag = item
    st = Stats()
    h, desc = apigen.descriptors(src)
    desc = dict(desc)
    desc["add_compound_data"] = dict(ret="struct compoundData*", args=["const char*", "double", "const char*", "double"], argnames=["compound", "weightA", "compound", "weightB"])
    vals = apisweep.Values(h, src, mix(seed, "c16o", tag))
    vals.nist_names, vals.nuc_names, vals.crystal_names = c03.catalogue_names(exe, sdir, tag)
    rng = random.Random(mix(seed, "c16order", tag))
    plan = []
    for fn in fns:
        for kinds, args in apisweep.sweep(h, desc, vals, fn, budget, True):
            plan.append((fn, kinds, args))
    lines = [calls.line(fn, kinds, args) for fn, kinds, args in plan]
    perm = list(range(len(lines)))
    rng.shuffle(perm)
    out1, rc1, err1 = calls.run(exe, "history", lines, sdir, tag + "_o1", extra_args=[rangesf])
    out2, rc2, err2 = calls.run(exe, "history", [lines[i] for i in perm], sdir, tag + "_o2", extra_args=[rangesf])
    if rc1 != 0 or rc2 != 0 or len(out1) != len(lines) + 1 or len(out2) != len(lines) + 1 or not out1[-1].startswith("STATE") or not out2[-1].startswith("STATE"):
        st.violation("history-crash", dict(functions=fns[:6], mode="orders"), "both orders execute", (err1 or err2)[-1500:])
        return st
    for k, i in enumerate(perm):
        st.ev()
        if out1[i] != out2[k]:
            st.violation("order-dependence:" + plan[i][0], dict(call=lines[i].replace("\t", " ")[:160], position_in_order=i, position_shuffled=k,
                                                               previous_in_order=lines[i - 1].replace("\t", " ")[:120] if i else None,
                                                               previous_shuffled=lines[perm[k - 1]].replace("\t", " ")[:120] if k else None),
                         out1[i][:200], out2[k][:200])
            break
    for which, o in (("generation order", out1), ("shuffled order", out2)):
        state = o[-1].split("\t")
        if state[1] != state[2]:
            tables_same = len(state) > 11 and state[11] == "1"
            st.violation("trace-left:static-state-outside-the-tables" if tables_same else "tables-modified", dict(functions=fns, mode=which), state[1], state[2])
        if state[3] != "1":
            st.violation("locale-changed", dict(functions=fns, mode=which), "locale unchanged", None)
        if len(state) > 10 and state[10] != "1":
            st.violation("process-environment-changed", dict(functions=fns, mode=which), "floating-point rounding mode / trap mask, umask, the caller's strtok() walk and rand() sequence unchanged", None)
        if state[5] != "1":
            st.violation("error-object-modified", dict(functions=fns, mode=which), "error objects untouched by later calls", None)
        if state[7] != "-":
            st.violation("stdout-output", dict(functions=fns, mode=which), "nothing on stdout", bytes.fromhex(state[7])[:200])
        if state[6] != "-" and not DEPRECATION.match(bytes.fromhex(state[6])) and b"set over the top" not in bytes.fromhex(state[6]):
            st.violation("stderr-output", dict(functions=fns, mode=which), "only deprecation diagnostics on stderr", bytes.fromhex(state[6])[:300])
    st.nt_key("orders", tuple(fns))
    st.cls("order_pairs", len(lines))
    st.sample("orders", dict(functions=fns[:5], calls=len(lines)), cap=2)
    return st


def run(ctx):
    quick = ctx.quick
    nhist, length = (25, 80) if quick else (400, 80)
    b = ctx.build("plainstatic", "B")
    gen = os.path.join(ctx.sdir, "gen16")
    os.makedirs(gen, exist_ok=True)
    apigen.generate(b["src"], os.path.join(gen, "gen_dispatch.inc"))
    exe = os.path.join(ctx.sdir, "xrlcall_pure")
    mapf = os.path.join(ctx.sdir, "xrlcall_pure.map")
    vbuild.compile_harness(ctx.sdir, b, [os.path.join(VERIF, "harness", "xrlcall.cpp")], exe,
                           extra=["-I" + gen, "-Wno-deprecated-declarations", "-pthread", "-no-pie", "-fno-pie", "-Wl,-Map=" + mapf])
    ranges = library_ranges(mapf)
    rangesf = os.path.join(ctx.sdir, "ranges.txt")
    with open(rangesf, "w") as f:
        for a, s, w in ranges:
            # third column: 1 = storage of the shipped data tables (the generated table object and the table pointer object), 0 = any other
            # static storage of the library
            f.write("%x %x %d\n" % (a, s, 1 if ("xrayglob" in w or "xrayvars" in w) else 0))
    ctx.extra["hashed_ranges"] = len(ranges)
    ctx.extra["hashed_bytes"] = sum(s for a, s, w in ranges)
    global COMMA
    import localetool
    COMMA = localetool.make_comma_locale(ctx.sdir)
    ctx.extra["comma_locale"] = bool(COMMA)
    items = [(exe, b["src"], rangesf, ctx.seed, nhist, length, ctx.sdir, "w%d" % k) for k in range(16)]
    ctx.stats.merge(common.pmap(work, items))
    fns = sorted(apigen.descriptors(b["src"])[1]) + ["add_compound_data"]
    parts = 16
    items2 = [(exe, b["src"], rangesf, ctx.seed, 1200 if quick else 12000, fns[k::parts], ctx.sdir, "o%d" % k) for k in range(parts)]
    ctx.stats.merge(common.pmap(work_orders, items2))
    ctx.rule = ("seeded histories (16 workers x %d histories, 10..%d steps + re-issued earlier steps) drawn from the C03 argument classes over every exported "
                "function incl. failing calls, XRayInit, parser, NIST / nuclide / crystal lookups, _CP and refractive functions and the deprecated stubs, on "
                "the Kissel-regenerated configuration under locale C.utf8 and (every second history) under a generated locale with a decimal comma; oracle: each step's encoded result == result of the same call in a fresh "
                "forked process; FNV-1a over %d library data/bss/rodata ranges (%d bytes) equal before/after; locale, cwd, floating-point environment, umask, stdout/stderr, kept error "
                "objects unchanged; plus the C03 argument sweep of every function as one history in generation order and in shuffled order "
                "(bit-identical answers, same hashes). non-trivial = history with >= 1 failing and >= 1 allocating call, distinct by history" % (nhist, length, len(ranges), ctx.extra["hashed_bytes"]))
    ctx.assumptions = ["insertions into the built-in crystal collection are excluded from histories (the property exempts them)",
                       "the fresh-process reference is a child forked before the parent ever called the library"]


def replay(ctx, rec):
    # histories are a pure function of the seed: re-run the workers with the recorded seed
    ctx2_seed = rec.get("seed", 1)
    old = ctx.seed
    ctx.seed = ctx2_seed
    try:
        run(ctx)
    finally:
        ctx.seed = old
    bad = [v for v in ctx.stats.violations if v["sig"] == rec["signature"]]
    return not bad
