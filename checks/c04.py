"""C04 - no call sequence corrupts, over-reads or leaks memory.
(a) the whole-API sweep of C03 executed under ASan+UBSan with a per-call heap balance confirmed by LeakSanitizer;
(b) rapidcheck-generated histories over the allocating APIs with an object pool (harness/c04_hist.cpp), ending in full release + LeakSanitizer;
(c) libFuzzer targets fuzz_formula and fuzz_crystalfile with semantic oracles and heap / descriptor balance inside the target."""
import glob, json, os, re, shutil, subprocess
import common, vbuild, calls, c03
from common import Stats, mix

VERIF = common.VERIF
SAN_ENV = dict(ASAN_OPTIONS="detect_leaks=1:leak_check_at_exit=0:halt_on_error=1:exitcode=99:allocator_may_return_null=1:handle_abort=1",
               UBSAN_OPTIONS="halt_on_error=1:print_stacktrace=1:exitcode=98")


def first_frame(err):
    # the frames of the report proper come first; stop at the allocation / deallocation history that follows them
    cut = len(err)
    for marker in ("previously allocated by", "freed by thread", "allocated by thread", "is located"):
        k = err.find(marker)
        if 0 <= k < cut:
            cut = k
    for l in err[:cut].split("\n"):
        m = re.search(r" in (\w+) .*/src/([\w.-]+):(\d+)", l)
        if m and not m.group(1).startswith("__"):
            return "%s@%s" % (m.group(1), m.group(2))
    return ""


def run_hist(item):
    exe, sdir, seed, n, size, tag = item
    st = Stats()
    steplog = os.path.join(sdir, "hist_%s.steps" % tag)
    statsf = os.path.join(sdir, "hist_%s.json" % tag)
    tmpf = os.path.join(sdir, "hist_%s.dat" % tag)
    env = dict(os.environ, **SAN_ENV)
    env["RC_PARAMS"] = "seed=%d max_success=%d max_size=%d" % (seed, n, size)
    p = subprocess.run([exe, steplog, tmpf, statsf], env=env, stdout=subprocess.PIPE, stderr=subprocess.PIPE, timeout=3600)
    out = p.stdout.decode("utf-8", "replace")
    err = p.stderr.decode("utf-8", "replace")
    info = {}
    if os.path.exists(statsf):
        try:
            info = json.load(open(statsf))
        except ValueError:
            info = {}
    st.ev(info.get("ops", 0))
    st.nt(info.get("nontrivial", 0))
    st.cls("histories", info.get("cases", 0))
    for k in ("fail_after_ok", "copies", "grow"):
        st.cls("hist_" + k, info.get(k, 0))
    if p.returncode != 0:
        lines = open(steplog).read().split("\n") if os.path.exists(steplog) else []
        cut = max([i for i, l in enumerate(lines) if l.startswith("--- history")] or [0])
        hist = [l for l in lines[cut:] if l][-80:]
        if "Falsifiable" in out or info.get("leaked"):
            kind = "leak" if (info.get("leaked") or "leak" in out) else "property"
            m = re.search(r"Falsifiable after.*?\n(.*?)\n\n", out, re.S)
            head = [l for l in err.split("\n") if "SUMMARY" in l or "Direct leak" in l][:4]
            st.violation("history:%s:%s" % (kind, first_frame(err) or "unknown"), dict(history=hist, rc_output=(m.group(0)[:1500] if m else out[-1500:])),
                         "no leak after full release", "\n".join(head) + "\n" + err[:1500])
        else:
            kind = "asan" if "AddressSanitizer" in err else ("ubsan" if "runtime error" in err else "crash")
            head = [l for l in err.split("\n") if "runtime error:" in l or "ERROR: AddressSanitizer" in l or "SUMMARY:" in l]
            st.violation("history:%s:%s" % (kind, first_frame(err) or "exit%d" % p.returncode), dict(history=hist), "no memory error",
                         "\n".join(head[:5]) + "\n" + err[:1500])
    else:
        st.sample("history", dict(seed=seed, cases=info.get("cases"), ops=info.get("ops"), crossing_capacity=info.get("grow")), cap=2)
    return st


CORPUS_OF = {"formula_diff": "formula"}


def run_fuzz(item):
    exe, sdir, target, seed, runs, corpus, tag = item[:7]
    prop = item[7] if len(item) > 7 else "C04"
    st = Stats()
    work = os.path.join(sdir, "fz_%s" % tag)
    os.makedirs(work, exist_ok=True)
    cdir = os.path.join(work, "corpus")
    os.makedirs(cdir, exist_ok=True)
    if corpus:
        for f in glob.glob(os.path.join(VERIF, "fuzz", "corpus", CORPUS_OF.get(target, target), "*")):
            shutil.copy(f, cdir)
    env = dict(os.environ, **SAN_ENV)
    env["VERIF_TMP"] = work
    env["FUZZ_API_STATS"] = os.path.join(work, "api_stats.json")
    env["FUZZ_DIFF_STATS"] = os.path.join(work, "diff_stats.json")
    cmd = [exe, "-seed=%d" % seed, "-runs=%d" % runs, "-max_len=%d" % (256 if target.startswith("formula") else 2048 if target == "crystalfile" else 512), "-artifact_prefix=" + work + "/",
           "-print_final_stats=1", "-timeout=20", "-rss_limit_mb=2048", cdir]
    if target.startswith("formula"):
        cmd.append("-only_ascii=0")
    p = subprocess.run(cmd, env=env, stdout=subprocess.PIPE, stderr=subprocess.PIPE, timeout=7200)
    err = p.stderr.decode("utf-8", "replace")
    m = re.search(r"stat::number_of_executed_units:\s*(\d+)", err)
    n = int(m.group(1)) if m else 0
    st.ev(n)
    st.cls("fuzz_execs:" + target, n)
    if target == "api" and os.path.exists(env["FUZZ_API_STATS"]):
        try:
            s = json.load(open(env["FUZZ_API_STATS"]))
            st.cls("fuzz_api_calls", s.get("calls", 0))
            st.cls("fuzz_api_failing_calls", s.get("failing_calls", 0))
        except ValueError:
            pass
    if target == "formula_diff" and os.path.exists(env["FUZZ_DIFF_STATS"]):
        try:
            s = json.load(open(env["FUZZ_DIFF_STATS"]))
            for k2 in ("accept", "reject", "unspecified"):
                st.cls("fuzz_verdict:" + k2, s.get(k2, 0))
        except ValueError:
            pass
    cov = re.findall(r"cov: (\d+)", err)
    if cov:
        st.note("fuzz_cov_%s_max" % target, int(cov[-1]))
    st.nt(len(os.listdir(cdir)))      # inputs that reached new coverage (kept by libFuzzer) - distinct by construction
    arts = [f for f in glob.glob(os.path.join(work, "*")) if os.path.basename(f).startswith(("crash-", "leak-"))]
    for a in arts[:3]:
        data = open(a, "rb").read()
        keep = os.path.join(common.OUT, "replays", prop)
        os.makedirs(keep, exist_ok=True)
        dst = os.path.join(keep, "%s-%s" % (target, os.path.basename(a)))
        shutil.copy(a, dst)
        oracle = re.findall(r"ORACLE-FAILURE ([\w-]+)", err)
        head = [l for l in err.split("\n") if "runtime error:" in l or "ERROR: AddressSanitizer" in l or "SUMMARY:" in l or "ORACLE-FAILURE" in l]
        what = ("oracle-" + oracle[0]) if oracle else ("asan" if "AddressSanitizer" in err else "ubsan" if "runtime error" in err else "crash")
        st.violation("fuzz:%s:%s:%s" % (target, what, "" if oracle else first_frame(err)), dict(target=target, artifact=dst, input_hex=data[:300].hex(), corpus=bool(corpus)),
                     "no sanitizer report / oracle failure", "\n".join(head[:6]))
    others = [f for f in glob.glob(os.path.join(work, "*")) if os.path.basename(f).startswith(("timeout-", "oom-", "slow-unit-"))]
    if others:
        st.cls("fuzz_inconclusive_units", len(others))
    if not arts:
        st.sample("fuzz:" + target, dict(execs=n, corpus_files=len(os.listdir(cdir)), seeded_corpus=bool(corpus)), cap=2)
    shutil.rmtree(work, ignore_errors=True)
    return st


def build_api_fuzzer(ctx, bfb):
    """fuzz/fuzz_api.cpp = the universal interpreter + a byte decoder, against the fuzzer-instrumented library of configuration B"""
    import apigen
    gen = os.path.join(ctx.sdir, "gen_fuzzapi")
    os.makedirs(gen, exist_ok=True)
    apigen.generate(bfb["src"], os.path.join(gen, "gen_dispatch.inc"))
    exe = os.path.join(ctx.sdir, "fuzz_api")
    cmd = ["clang++", "-std=gnu++17", "-g", "-O1", "-fsanitize=fuzzer,address,undefined", "-fno-sanitize-recover=undefined", "-Wno-deprecated-declarations", "-I" + gen] + \
          ["-I" + i for i in bfb["incs"]] + [os.path.join(VERIF, "fuzz", "fuzz_api.cpp"), bfb["lib"], "-lm", "-lpthread", "-o", exe]
    rc, out = vbuild.run(cmd)
    if rc != 0:
        raise vbuild.BuildError("fuzz target api failed to build\n%s" % out[-3000:])
    return exe


def run(ctx):
    import concurrent.futures as cf
    quick = ctx.quick
    # (a) sweep with leak confirmation
    c03.run_sweep(ctx, "fullleak")
    keep = [v for v in ctx.stats.violations if v["sig"].split(":")[0] in ("memory", "leak", "infra")]
    dropped = len(ctx.stats.violations) - len(keep)
    ctx.stats.violations = keep
    ctx.stats.per_sig = {k: v for k, v in ctx.stats.per_sig.items() if k.split(":")[0] in ("memory", "leak", "infra")}
    ctx.stats.nviol = sum(ctx.stats.per_sig.values())
    ctx.extra["contract_violations_left_to_C03"] = dropped
    # (b) + (c) share one ASan build and one fuzzer build
    with cf.ThreadPoolExecutor(3) as ex:
        fa = ex.submit(ctx.build, "asan", "A")
        ff = ex.submit(ctx.build, "fuzz", "A")
        fb = ex.submit(ctx.build, "fuzz", "B")
        ba, bf, bfb = fa.result(), ff.result(), fb.result()
    hist_exe = os.path.join(ctx.sdir, "c04_hist")
    vbuild.compile_harness(ctx.sdir, ba, [os.path.join(VERIF, "harness", "c04_hist.cpp")], hist_exe, libs=["-lrapidcheck"])
    fz = {}
    for t in ("formula", "crystalfile"):
        exe = os.path.join(ctx.sdir, "fuzz_" + t)
        cmd = ["clang++", "-std=gnu++17", "-g", "-O1", "-fsanitize=fuzzer,address,undefined", "-fno-sanitize-recover=undefined"] + ["-I" + i for i in bf["incs"]] + \
              [os.path.join(VERIF, "fuzz", "fuzz_%s.cpp" % t), bf["lib"], "-lm", "-o", exe]
        rc, out = vbuild.run(cmd)
        if rc != 0:
            raise vbuild.BuildError("fuzz target %s failed to build\n%s" % (t, out[-3000:]))
        fz[t] = exe
    fz["api"] = build_api_fuzzer(ctx, bfb)
    nh, size = (400, 60) if quick else (6000, 120)
    items_h = [(hist_exe, ctx.sdir, mix(ctx.seed, "hist", k) % (2**31 - 1) + 1, nh, size, "h%d" % k) for k in range(6 if quick else 16)]
    runs = 60000 if quick else 3000000
    items_f = []
    for t in ("formula", "crystalfile", "api"):
        r = runs if t == "formula" else runs // 6 if t == "crystalfile" else runs // 2
        for k in range(2 if quick else 6):
            items_f.append((fz[t], ctx.sdir, t, mix(ctx.seed, "fz", t, k) % (2**31 - 1) + 1, r, k % 2 == 0, "%s%d" % (t, k)))
    with cf.ThreadPoolExecutor(16) as ex:
        for st in list(ex.map(run_hist, items_h)) + list(ex.map(run_fuzz, items_f)):
            ctx.stats.merge(st)
    # (d) the built-in collection at its capacity, in the ASan interpreter, each scenario in a process of its own
    exe_b, hb, db = calls.build_harness(ctx.sdir, ba, tag="_builtin")
    for mode, label in ((3, "file into the nearly full built-in collection"), (4, "AddCrystal without an error slot into the full built-in collection")):
        ctx.stats.ev()
        out, rc, err = calls.run(exe_b, "simple", [calls.line("@addcrystal", "i", (mode,))], ctx.sdir, "builtin%d" % mode)
        case = dict(scenario=label, mode=mode)
        if rc != 0 or len(out) != 1:
            kind = "asan" if "AddressSanitizer" in err else ("ubsan" if "runtime error" in err else "crash")
            head = [l for l in err.split("\n") if "runtime error:" in l or "ERROR: AddressSanitizer" in l or "SUMMARY:" in l]
            ctx.stats.violation("builtin:%s:%s" % (kind, first_frame(err) or "exit%d" % rc), case, "refused without a memory error", "\n".join(head[:5]) + "\n" + err[:1200])
            continue
        r = calls.parse(out[0])
        res = r.get("result") or ""
        if mode == 3 and (r.get("err") is None or res != "i:0"):
            ctx.stats.violation("builtin:file-accepted-past-capacity", case, "0 and an error", out[0][:200])
        if mode == 4 and not (res.startswith("add4:rv=0;") and ";n=" in res and res.split(";n=")[1].split(";")[0] == res.split(";cap=")[1].split(";")[0]):
            ctx.stats.violation("builtin:grew-past-capacity-without-slot", case, "rv=0, n == capacity", res)
        if mode == 4 and ";grown=" in res and int(res.split(";grown=")[1]) > 0:
            ctx.stats.violation("leak:Crystal_AddCrystal:refused-addition", case, "a refused addition holds no memory", res.split(";grown=")[1] + " bytes after 40 refusals (confirmed by LeakSanitizer)")
        ctx.stats.nt()
        ctx.stats.sample("builtin_capacity", dict(case, result=res[:60]), cap=2)
    ctx.rule = ("(a) the C03 sweep (all exported functions x exhaustive discrete / structured continuous / string / crystal arguments, configurations "
                "A and B) under ASan+UBSan with an exact heap balance per call, suspicious balances confirmed by LeakSanitizer after 10 repetitions; "
                "(b) rapidcheck histories (seeded, %d x %d cases, size <= %d) over parser / add_compound_data / NIST / nuclide / lists / symbols / "
                "crystal copies / user arrays incl. AddCrystal and ReadFile (well formed and 5 corruption kinds) / error objects / _CP and refractive "
                "calls, objects pooled, scribbled over and released in generated order, full release + LeakSanitizer at the end; (c) libFuzzer "
                "fuzz_formula, fuzz_crystalfile (%d / %d runs each, with and without seed corpus) and fuzz_api (bytes decoded into 1..4 calls of any "
                "exported function with class and raw arguments; slot/no-slot identity, error <=> failure value, finite results, heap balance) with "
                "semantic oracles inside the target. "
                "non-trivial = sweep case (distinct (function, arguments, outcome)); history with a failing constructor after a successful one, a "
                "copy outliving its original or an insertion beyond the capacity; fuzz input that reached new coverage" % (len(items_h), nh, size, runs, runs // 6))
    ctx.assumptions = ["allocation-failure paths (XRL_ERROR_MEMORY) are not injected", "libFuzzer timeout/oom/slow-unit artefacts are counted as inconclusive, never as violations",
                       "LeakSanitizer's conservative stack scan is countered by repetition and a 64 KiB stack scrub"]


def replay(ctx, rec):
    sig = rec["signature"]
    if sig.startswith(("memory", "leak")):
        return c03.replay(ctx, rec)
    if sig.startswith("fuzz"):
        c = rec["case"]
        t = c["target"]
        if t == "api":
            exe = build_api_fuzzer(ctx, ctx.build("fuzz", "B"))
        else:
            bf = ctx.build("fuzz", "A")
            exe = os.path.join(ctx.sdir, "fuzz_" + t)
            cmd = ["clang++", "-std=gnu++17", "-g", "-O1", "-fsanitize=fuzzer,address,undefined", "-fno-sanitize-recover=undefined"] + ["-I" + i for i in bf["incs"]] + \
                  [os.path.join(VERIF, "fuzz", "fuzz_%s.cpp" % t), bf["lib"], "-lm", "-o", exe]
            vbuild.run(cmd)
        inp = os.path.join(ctx.sdir, "input")
        with open(inp, "wb") as f:
            f.write(bytes.fromhex(c["input_hex"]))
        p = subprocess.run([exe, inp], env=dict(os.environ, VERIF_TMP=ctx.sdir, **SAN_ENV), stdout=subprocess.PIPE, stderr=subprocess.PIPE)
        print("replay fuzz input rc=%d" % p.returncode)
        return p.returncode == 0
    # histories: re-run the generator with the recorded seed
    ba = ctx.build("asan", "A")
    hist_exe = os.path.join(ctx.sdir, "c04_hist")
    vbuild.compile_harness(ctx.sdir, ba, [os.path.join(VERIF, "harness", "c04_hist.cpp")], hist_exe, libs=["-lrapidcheck"])
    bad = []
    for k in range(6):
        st = run_hist((hist_exe, ctx.sdir, mix(rec.get("seed", 1), "hist", k) % (2**31 - 1) + 1, 400, 60, "r%d" % k))
        bad += [v for v in st.violations if v["sig"].split(":")[1] == sig.split(":")[1]]
    return not bad
