"""C17 - concurrent queries from many threads are race-free and agree with serial results.
Generated thread mixes (8/12/16 threads, seeded per-thread call lists from the thread-safe API subset incl. failing calls, parser / _CP /
refractive functions, catalogue and crystal lookups) run on a ThreadSanitizer build behind a barrier, under several seeded sched_yield
patterns; oracles: no TSan report, per-thread results identical to a serial run, no locale-changing setlocale while workers are live
(link-level --wrap observer)."""
import os, random, math
import common, vbuild, calls, apigen, apisweep, c03
from common import Stats, mix

VERIF = common.VERIF
# history_size=7: the race detector drops a race whose earlier access it can no longer find in that thread's event history; on a loaded machine
# one thread can be thousands of calls ahead of another
TSAN_ENV = dict(TSAN_OPTIONS="halt_on_error=1:exitcode=97:second_deadlock_stack=1:report_signal_unsafe=0:history_size=7")


def private_array_line(rng):
    """a generated crystal definition file loaded into a collection that only the calling thread owns"""
    names = ["P%d_%s" % (rng.randrange(1000), "".join(rng.choice("abcXYZ_") for _ in range(rng.randint(1, 8)))) for _ in range(rng.randint(1, 12))]
    names = sorted(set(names), key=names.index)
    out = ["#F generated\n"]
    for nm in names:
        out.append("#S %d %s\n#UCELL %.4f %.4f %.4f %.3f %.3f %.3f\n#N 5\n#L  AtomicNumber  Fraction  X  Y  Z\n" %
                   (rng.randint(1, 90), nm, rng.uniform(2, 12), rng.uniform(2, 12), rng.uniform(2, 12), rng.choice((90.0, rng.uniform(60, 120))), 90.0, rng.choice((90.0, 120.0))))
        for _ in range(0 if rng.random() < 0.15 else rng.randint(1, 5)):      # now and then a header-only block: a crystal without atoms
            out.append("%d %.3f %.4f %.4f %.4f\n" % (rng.randint(1, 92), rng.choice((1.0, 0.5)), rng.random(), rng.random(), rng.random()))
    kind = rng.random()
    if kind > 0.9:
        out = ["#F nothing but comments\n", "#C no crystal is defined here\n"]      # a file that defines no crystal: accepted, adds nothing
    if kind < 0.15 and len(names) > 1:
        k = rng.choice([i for i, l in enumerate(out) if l.startswith("#S ")])
        out[k] = out[k].replace("#UCELL", "#XCELL")                  # malformed (no cell): must fail in the same way in every thread
    out.append("#EOF\n")
    text = "".join(out)
    if rng.random() < 0.25:
        text = text.replace("\n", "\r\n")          # a file written on another platform
    return calls.line("@private_array", "iss", (rng.randint(0, 6), text, rng.choice(names + ["AA_private_entry", "absent"])))


def big_private_array_line(rng, nbytes):
    """a large generated collection (tens to hundreds of kB: beyond any stdio or read-ahead buffer) for a thread-private array"""
    out = ["#F generated, large\n"]
    size, k = 0, 0
    tag = "".join(rng.choice("abcdefgh") for _ in range(4))
    while size < nbytes:
        blk = "#S %d B%s_%05d\n#UCELL %.4f %.4f %.4f %.3f %.3f %.3f\n#N 5\n#L  AtomicNumber  Fraction  X  Y  Z\n" % (
            rng.randint(1, 90), tag, k, rng.uniform(2, 12), rng.uniform(2, 12), rng.uniform(2, 12), 90.0, rng.choice((90.0, 101.5)), 90.0)
        for _ in range(rng.randint(1, 6)):
            blk += "%d %.3f %.4f %.4f %.4f\n" % (rng.randint(1, 92), rng.choice((1.0, 0.5)), rng.random(), rng.random(), rng.random())
        out.append(blk)
        size += len(blk)
        k += 1
    out.append("#EOF\n")
    return calls.line("@private_array", "iss", (rng.randint(0, 6), "".join(out), "B%s_%05d" % (tag, rng.randrange(k))))


def work_big(item):
    """file mixes: every thread but one loads collections of its own, small ones and large ones (sizes log-uniform over 20 kB .. 700 kB, so that
    several threads are inside the reading of a large file at the same time), while one thread - the only one that touches the built-in
    collection - attempts loads that are parsed completely and then refused for lack of room."""
    exe, src, seed, nmix, sdir, tag = item
    st = Stats()
    rng = random.Random(mix(seed, "c17big", tag))
    for mi in range(nmix):
        T = rng.choice([4, 8])
        lines = []
        for rnd in range(rng.randint(2, 3)):
            for t in range(T):
                if t == 0:
                    lines.append(calls.line("@refused_builtin_load", "i", (rng.choice([480, 500, 600]),)))
                elif rng.random() < 0.3:
                    lines.append(private_array_line(rng))
                else:
                    lines.append(big_private_array_line(rng, int(math.exp(rng.uniform(math.log(2e4), math.log(7e5))))))
        run_mix(st, exe, lines, T, sdir, tag, rng, "files:%d" % mi)
        st.cls("file_mixes")
    return st


COMMA = None      # dict(LOCPATH, name) of the comma-decimal locale built by run(), or None


def run_mix(st, exe, lines, T, sdir, tag, rng, mi, comma=False, lockstep=False):
    """serial reference + three thread runs (yield patterns) of one list of call lines; judged here"""
    TSAN_ENV = dict(globals()["TSAN_ENV"])
    if comma and COMMA:
        TSAN_ENV.update(XRLCALL_LOCALE=COMMA["name"], LOCPATH=COMMA["LOCPATH"])      # the whole mix under a decimal-comma locale
        st.cls("mixes_under_comma_locale")
    serial, rc0, err0 = calls.run(exe, "simplens", lines, sdir, tag + "_s", env=TSAN_ENV)
    if rc0 != 0 or len(serial) != len(lines):
        st.violation("serial-run-failed", dict(mix=mi), "serial reference", err0[-1200:])
        return
    for l in serial:
        if "pa:rv=" in l:
            st.cls("private_array:" + ("loaded" if "pa:rv=1" in l else "rejected"))
        elif "pa:no" in l:
            st.violation("private-array-scenario-broken", dict(mix=mi), "array and file", l[:200])
    for ys in (0, 1 + rng.randrange(1000), 1 + rng.randrange(1000)):
        st.ev()
        # focus mixes: the first run in lockstep (a barrier before every round of T calls), the others free-running with yields
        out, rc, err = calls.run(exe, "threads:%d:%d:%d" % (T, ys, 1 if (lockstep and ys == 0) else 0), lines, sdir, tag + "_t", env=TSAN_ENV)
        case = dict(threads=T, calls=len(lines), yield_seed=ys, sample=[l.replace("\t", " ")[:80] for l in lines[:6]])
        if rc != 0 or "ThreadSanitizer" in err:
            import re
            m = re.search(r"WARNING: ThreadSanitizer: ([^\n]+)", err)
            frames = re.findall(r"#\d+ (\w+) [^\n]*/src/([\w.-]+):(\d+)", err)
            where = "%s@%s" % (frames[0][0], frames[0][1]) if frames else "unknown"
            st.violation("tsan:%s:%s" % ((m.group(1).split(" (")[0] if m else "exit%d" % rc).replace(" ", "-"), where), case, "no data race", err[:2500])
            break
        if not out or not out[-1].startswith("TSTATE") or len(out) != len(lines) + 1:
            st.violation("threads-run-failed", case, "complete output", err[-800:])
            break
        if int(out[-1].split("\t")[1]) > 0:
            st.violation("setlocale-while-threaded", case, "no locale change while workers are live", out[-1])
        diff = [i for i, (a, b) in enumerate(zip(serial, out)) if a != b]
        if diff:
            i = diff[0]
            st.violation("differs-from-serial:" + lines[i].split("\t")[0], dict(case, call=lines[i].replace("\t", " ")[:200]), serial[i][:200], out[i][:200])
            break
        alloc_threads = len({i % T for i, l in enumerate(lines) if ("_CP\t" in l or l.startswith(("CompoundParser", "Get", "Crystal_GetCrystal", "Refractive", "AtomicNumberToSymbol", "Crystal_MakeCopy")))})
        if alloc_threads >= 2:
            st.nt_key(tuple(lines), ys)
        st.cls("mix_runs")
        st.cls("calls", len(lines))


def work(item):
    exe, src, seed, nmix, per_thread, sdir, tag = item
    st = Stats()
    h, desc = apigen.descriptors(src)
    desc = dict(desc)
    desc["add_compound_data"] = dict(ret="struct compoundData*", args=["const char*", "double", "const char*", "double"], argnames=["compound", "weightA", "compound", "weightB"])
    vals = apisweep.Values(h, src, mix(seed, "c17", tag))
    vals.nist_names, vals.nuc_names, vals.crystal_names = c03.catalogue_names(exe, sdir, tag)
    rng = random.Random(mix(seed, "c17m", tag))
    fns = sorted(desc)
    pool = {}
    for mi in range(nmix):
        T = rng.choice([8, 12, 16])
        n = T * rng.randint(per_thread // 2, per_thread)
        lines = []
        shared = []
        for _ in range(8):   # the same queries issued by every thread at the same time
            fn = rng.choice(fns)
            sw = pool.setdefault(fn, apisweep.sweep(h, desc, vals, fn, 40, True))
            if sw:
                k, a = rng.choice(sw)
                shared.append(calls.line(fn, k, a))
        while len(lines) < n:
            if rng.random() < 0.15 and shared:
                l = rng.choice(shared)
                lines += [l] * T          # one per thread (round-robin assignment)
                continue
            if rng.random() < 0.04:
                # thread-private collections: a block so that several threads load their own files at the same moment
                lines += [private_array_line(rng) for _ in range(T)]
                continue
            fn = rng.choice(fns)
            sw = pool.setdefault(fn, apisweep.sweep(h, desc, vals, fn, 40, True))
            if not sw:
                continue
            k, a = rng.choice(sw)
            lines.append(calls.line(fn, k, a))
        run_mix(st, exe, lines, T, sdir, tag, rng, mi, comma=(mi % 3 == 2))
        st.sample("mix", dict(threads=T, calls=len(lines), first=[l.replace("\t", " ")[:70] for l in lines[:4]]), cap=2)
    return st


def work_focus(item):
    """focus mixes: T threads execute the SAME argument sweep of a few functions in lockstep (every value of every discrete class appears, so a
    static touched only for one line macro or one shell is touched by all threads at once).  ThreadSanitizer's happens-before detection then
    reports the unsynchronised access whether or not the schedule made it visible in the results."""
    exe, src, seed, budget, fns, sdir, tag = item
    st = Stats()
    h, desc = apigen.descriptors(src)
    desc = dict(desc)
    desc["add_compound_data"] = dict(ret="struct compoundData*", args=["const char*", "double", "const char*", "double"], argnames=["compound", "weightA", "compound", "weightB"])
    vals = apisweep.Values(h, src, mix(seed, "c17f", tag))
    vals.nist_names, vals.nuc_names, vals.crystal_names = c03.catalogue_names(exe, sdir, tag)
    rng = random.Random(mix(seed, "c17focus", tag))
    T = 4
    group = []
    for gi in range(0, len(fns), 6):
        lines = []
        for fn in fns[gi:gi + 6]:
            for kinds, args in apisweep.sweep(h, desc, vals, fn, budget, True):
                lines += [calls.line(fn, kinds, args)] * T
                if args and isinstance(args[0], str) and args[0].startswith("g:") and rng.random() < 0.3:
                    # the same generated cell as a hand-made struct whose volume member was left at 0, shared read-only by all threads
                    a2 = ["h:" + args[0][2:]] + list(args[1:])
                    lines += [calls.line(fn, kinds, a2)] * T
        if lines:
            run_mix(st, exe, lines, T, sdir, tag, rng, "focus:" + ",".join(fns[gi:gi + 6]), comma=((gi // 6) % 4 == 3), lockstep=True)
            st.cls("focus_mixes")
    return st


def run(ctx):
    quick = ctx.quick
    nmix, per_thread = (16, 250) if quick else (80, 600)
    b = ctx.build("tsan", "B")
    gen = os.path.join(ctx.sdir, "gen17")
    os.makedirs(gen, exist_ok=True)
    apigen.generate(b["src"], os.path.join(gen, "gen_dispatch.inc"))
    exe = os.path.join(ctx.sdir, "xrlcall_tsan")
    vbuild.compile_harness(ctx.sdir, b, [os.path.join(VERIF, "harness", "xrlcall.cpp")], exe,
                           extra=["-I" + gen, "-Wno-deprecated-declarations", "-pthread", "-DXRLCALL_WRAP_SETLOCALE", "-Wl,--wrap=setlocale"])
    global COMMA
    import localetool
    COMMA = localetool.make_comma_locale(ctx.sdir)
    items = [(exe, b["src"], ctx.seed, nmix, per_thread, ctx.sdir, "w%d" % k) for k in range(5 if quick else 8)]
    ctx.stats.merge(common.pmap(work, items, jobs=5 if quick else 4))
    ctx.stats.merge(common.pmap(work_big, [(exe, b["src"], ctx.seed, 2 if quick else 12, ctx.sdir, "b%d" % k) for k in range(4)], jobs=4))
    allf = sorted(apigen.descriptors(b["src"])[1]) + ["add_compound_data"]
    nf = 8
    items_f = [(exe, b["src"], ctx.seed, 60 if quick else 600, allf[k::nf], ctx.sdir, "f%d" % k) for k in range(nf)]
    ctx.stats.merge(common.pmap(work_focus, items_f, jobs=8))
    ctx.rule = ("%d workers x %d generated mixes x 3 yield patterns: T in {8,12,16} threads, %d..%d calls per thread drawn (seeded) from the C03 argument "
                "classes over every exported function (insertion only into collections private to the calling thread: init, ReadFile of a generated file, AddCrystal, "
                "list, lookup, free), with blocks of identical queries issued by all threads at once; "
                "plus file mixes (threads load private collections of 20 kB..700 kB at the same time while one thread attempts loads into the built-in collection that are parsed and refused); "
                "plus focus mixes in which 4 threads execute the same argument sweep of every function in lockstep; ThreadSanitizer build (library and harness), barrier start, seeded sched_yield injection in the harness; compared line by line with a "
                "serial run of the same lists (every fifth call without an error slot, in both); a third of the mixes run under a generated decimal-comma locale; setlocale observed through -Wl,--wrap. non-trivial = mix run in which >= 2 threads execute "
                "allocating calls, distinct by (call lists, yield pattern)" % (len(items), nmix, per_thread // 2, per_thread))
    ctx.assumptions = ["races inside uninstrumented libc other than setlocale are invisible to ThreadSanitizer",
                       "happens-before race detection does not need the race to manifest, which is what makes generated mixes meaningful here"]


def replay(ctx, rec):
    old = ctx.seed
    ctx.seed = rec.get("seed", 1)
    try:
        run(ctx)
    finally:
        ctx.seed = old
    return not [v for v in ctx.stats.violations if v["sig"].split(":")[0] == rec["signature"].split(":")[0]]
