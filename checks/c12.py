"""C12 - closed-form scattering formulas are mutually consistent and physically bounded.
Hypothesis-generated (E, theta, phi) over 1e-6..1e6 keV and [-4pi,4pi] plus structured special values; oracles are relations between
the public functions (quadrature, azimuthal average, limits, algebraic identities, symmetry), not re-implementations."""
import math, random
import numpy as np
from hypothesis import strategies as hs
import common, xrl, hyp
from common import Stats, mix

PI = math.pi
SPECIAL_E = [1e-6, 1e-5, 1e-4, 1e-3, 1e-2, 0.1, 1.0, 10.0, 100.0, 510.998928, 1e3, 1e4, 1e5, 1e6]
SPECIAL_T = [0.0, 1e-8, -1e-8, PI / 2, -PI / 2, PI, -PI, 2 * PI, 3 * PI, PI / 3, 1.0, 4 * PI, -4 * PI]

E_ST = hs.one_of(hs.floats(-6.0, 6.0).map(lambda x: 10.0 ** x), hs.sampled_from(SPECIAL_E))
NEAR = [1e-6, -1e-5, 1e-4, -1e-3, 2e-3, 3e-3, -5e-3, 8e-3, 1e-2, -2e-2, 5e-2]      # neighbourhoods of the special angles: small-argument branches live here
T_ST = hs.one_of(hs.floats(-4 * PI, 4 * PI), hs.sampled_from(SPECIAL_T), hs.tuples(hs.sampled_from(SPECIAL_T), hs.sampled_from(NEAR)).map(lambda p: p[0] + p[1]))
T0PI_ST = hs.one_of(hs.floats(0.0, PI), hs.sampled_from([0.0, PI / 2, PI, 1e-8]))

_GL = {}


def gl(n):
    if n not in _GL:
        _GL[n] = np.polynomial.legendre.leggauss(n)
    return _GL[n]


class R:
    """relations, bound to one library"""

    def __init__(self, L, h):
        self.L, self.h = L, h
        self.RE2, self.MEC2 = h.val["RE2"], h.val["MEC2"]

    def v(self, fn, *a):
        return self.L.call(fn, *a)

    def nontrivial(self, st, rel, E, th=None, ph=None):
        if E is not None and (E < 1.0 or E > 100.0) or (th is not None and abs(math.remainder(th, PI / 2)) > 1e-12):
            st.nt_key(rel, E, th, ph)

    # (1) finiteness / positivity
    def finite_positive(self, st, E, th):
        st.ev()
        for fn, args in (("DCS_Thoms", (th,)), ("DCS_KN", (E, th)), ("CS_KN", (E,)), ("ComptonEnergy", (E, th))):
            val, err = self.v(fn, *args)
            if err is not None or not math.isfinite(val) or not (val > 0):
                return ("positive-finite:" + fn, dict(fn=fn, args=list(args)), "finite and > 0", dict(value=val, error=err))
        self.nontrivial(st, "fin", E, th)
        st.sample("finite_positive", dict(E=E, theta=th), cap=2)

    # (2) total = solid-angle integral of the differential form
    def quad(self, E, n):
        a = E / self.MEC2
        x, w = gl(n)
        if a < 0.1:
            mu = x
            s = 0.0
            for m, ww in zip(mu, w):
                val, err = self.v("DCS_KN", E, math.acos(max(-1.0, min(1.0, m))))
                if err is not None or not math.isfinite(val):
                    return None
                s += ww * val
            return 2 * PI * s
        tmax = math.log1p(2 * a)
        s = 0.0
        for xx, ww in zip(x, w):
            t = 0.5 * tmax * (xx + 1.0)
            one_minus_mu = math.expm1(t) / a
            mu = 1.0 - one_minus_mu
            val, err = self.v("DCS_KN", E, math.acos(max(-1.0, min(1.0, mu))))
            if err is not None or not math.isfinite(val):
                return None
            s += ww * val * math.exp(t) / a
        return 2 * PI * s * 0.5 * tmax

    def total_is_integral(self, st, E):
        st.ev()
        q1, q2 = self.quad(E, 96), self.quad(E, 192)
        if q1 is None or q2 is None:
            return ("integral:nonfinite-DCS_KN", dict(E=E), "finite integrand", None)
        if xrl.relerr(q1, q2) > 1e-11:
            st.cls("quadrature_inconclusive")   # the oracle is not converged: never a violation
            return None
        tot, err = self.v("CS_KN", E)
        if err is not None or not math.isfinite(tot) or xrl.relerr(tot, q2) > 1e-9:
            return ("integral:CS_KN", dict(E=E), q2, dict(value=tot, error=err))
        self.nontrivial(st, "int", E)
        st.sample("total_is_integral", dict(E=E, quadrature=q2, CS_KN=tot), cap=2)

    # (3) unpolarised = azimuthal average of polarised (8 equally spaced phi: exact for cos^2)
    def azimuthal(self, st, E, th, ph):
        st.ev()
        for un, po, a_un, a_po in (("DCS_Thoms", "DCSP_Thoms", (th,), (th,)), ("DCS_KN", "DCSP_KN", (E, th), (E, th))):
            u, err = self.v(un, *a_un)
            if err is not None:
                return ("azimuthal:error:" + un, dict(args=list(a_un)), "value", err)
            s = 0.0
            for k in range(8):
                p, err = self.v(po, *(a_po + (ph + k * PI / 4,)))
                if err is not None or not math.isfinite(p) or p < -1e-15 * self.RE2:
                    return ("azimuthal:bad:" + po, dict(args=list(a_po) + [ph + k * PI / 4]), "finite, >= 0", dict(value=p, error=err))
                s += p
            s /= 8.0
            if abs(s - u) > 1e-12 * abs(u) + 1e-15 * self.RE2:
                return ("azimuthal:" + un, dict(E=E, theta=th, phi0=ph), u, s)
        self.nontrivial(st, "azi", E, th, ph)
        st.sample("azimuthal", dict(E=E, theta=th, phi0=ph), cap=2)

    # (4) bounds and low-energy limit
    def bounds(self, st, E, th):
        st.ev()
        a = E / self.MEC2
        kn, e1 = self.v("DCS_KN", E, th)
        tho, e2 = self.v("DCS_Thoms", th)
        tot, e3 = self.v("CS_KN", E)
        if e1 or e2 or e3:
            return ("bounds:error", dict(E=E, theta=th), "values", [e1, e2, e3])
        sT = 8 * PI / 3 * self.RE2
        if not (kn <= tho * (1 + 1e-14)):
            return ("bounds:DCS_KN>DCS_Thoms", dict(E=E, theta=th), "<= %r" % tho, kn)
        if not (tot <= sT * (1 + 1e-9)):
            return ("bounds:CS_KN>sigma_T", dict(E=E), "<= %r" % sT, tot)
        if a <= 1e-3:
            if abs(kn / tho - 1.0) > 4 * a + 1e-14:
                return ("limit:DCS_KN->DCS_Thoms", dict(E=E, theta=th), "|ratio-1| <= 4a", kn / tho)
            if abs(tot / sT - (1 - 2 * a)) > 6 * a * a + 1e-9:
                return ("limit:CS_KN->sigma_T", dict(E=E), "|ratio-(1-2a)| <= 6a^2 (+1e-9)", tot / sT)
        self.nontrivial(st, "bnd", E, th)
        st.sample("bounds", dict(E=E, theta=th), cap=2)

    # (5) DCS_KN in terms of the Compton energy ratio
    def ratio_form(self, st, E, th):
        st.ev()
        ce, e1 = self.v("ComptonEnergy", E, th)
        kn, e2 = self.v("DCS_KN", E, th)
        if e1 or e2:
            return ("ratio:error", dict(E=E, theta=th), "values", [e1, e2])
        r = ce / E
        s = math.sin(th)
        exp = self.RE2 / 2 * r * r * (r + 1 / r - s * s)
        if xrl.relerr(kn, exp) > 1e-12:
            return ("ratio:DCS_KN", dict(E=E, theta=th), exp, kn)
        self.nontrivial(st, "rat", E, th)
        st.sample("ratio_form", dict(E=E, theta=th, r=r), cap=2)

    # (6) Compton energy endpoints and monotone decrease
    def compton_energy(self, st, E, t1, t2):
        st.ev()
        a = E / self.MEC2
        lo, hi = min(t1, t2), max(t1, t2)
        e0, x0 = self.v("ComptonEnergy", E, 0.0)
        ep, x1 = self.v("ComptonEnergy", E, PI)
        ea, x2 = self.v("ComptonEnergy", E, lo)
        eb, x3 = self.v("ComptonEnergy", E, hi)
        if x0 or x1 or x2 or x3:
            return ("compton:error", dict(E=E, t=[lo, hi]), "values", [x0, x1, x2, x3])
        if xrl.relerr(e0, E) > 1e-15:
            return ("compton:theta0", dict(E=E), E, e0)
        if xrl.relerr(ep, E / (1 + 2 * a)) > 1e-14:
            return ("compton:thetapi", dict(E=E), E / (1 + 2 * a), ep)
        if not (eb <= ea * (1 + 1e-15)) or not (ep * (1 - 1e-15) <= eb) or not (ea <= e0 * (1 + 1e-15)):
            return ("compton:monotone", dict(E=E, t=[lo, hi]), "E(0) >= E(t_lo) >= E(t_hi) >= E(pi)", [e0, ea, eb, ep])
        self.nontrivial(st, "cmp", E, lo, hi)
        st.sample("compton_energy", dict(E=E, theta=[lo, hi], energies=[ea, eb]), cap=2)

    # (7) evenness and 2pi-periodicity
    def symmetry(self, st, E, th, ph):
        st.ev()
        fl = self.RE2 * 1e-14
        for fn, mk in (("DCS_Thoms", lambda t, p: (t,)), ("DCS_KN", lambda t, p: (E, t)), ("ComptonEnergy", lambda t, p: (E, t)),
                       ("DCSP_Thoms", lambda t, p: (t, p)), ("DCSP_KN", lambda t, p: (E, t, p))):
            base, err = self.v(fn, *mk(th, ph))
            if err is not None:
                return ("symmetry:error:" + fn, dict(E=E, theta=th, phi=ph), "value", err)
            scale = E if fn == "ComptonEnergy" else self.RE2
            for tag, (t2, p2) in (("even-theta", (-th, ph)), ("even-phi", (th, -ph)), ("period-theta", (th + 2 * PI, ph)),
                                  ("period-phi", (th, ph + 2 * PI))):
                v2, err = self.v(fn, *mk(t2, p2))
                tol = 0.0 if tag.startswith("even") else 1e-11
                if err is not None or abs(v2 - base) > tol * abs(base) + (0.0 if tag.startswith("even") else 1e-13 * scale):
                    return ("symmetry:%s:%s" % (tag, fn), dict(E=E, theta=th, phi=ph), base, dict(value=v2, error=err))
        self.nontrivial(st, "sym", E, th, ph)
        st.sample("symmetry", dict(E=E, theta=th, phi=ph), cap=2)

    # (8) non-positive energy is an error
    def nonpositive(self, st, E, th, ph):
        st.ev()
        for fn, args in (("DCS_KN", (E, th)), ("CS_KN", (E,)), ("ComptonEnergy", (E, th)), ("DCSP_KN", (E, th, ph)), ("MomentTransf", (E, th))):
            val, err = self.v(fn, *args)
            if err is None or val != 0.0:
                return ("nonpositive-energy:" + fn, dict(fn=fn, args=list(args)), "error and 0.0", dict(value=val, error=err))
        st.nt_key("neg", E, th)
        st.sample("nonpositive", dict(E=E, theta=th), cap=1)


def work(item):
    lib_path, src, rel, n, seed = item
    st = Stats()
    h = xrl.Headers(src)
    L = xrl.Lib(lib_path, h)
    r = R(L, h)
    sv = mix(seed, "c12", rel) % (2**31)
    if rel == "finite_positive":
        k = hyp.run_property(st, rel, dict(E=E_ST, th=T_ST), r.finite_positive, n, sv)
    elif rel == "total_is_integral":
        k = hyp.run_property(st, rel, dict(E=E_ST), r.total_is_integral, max(50, n // 10), sv)
    elif rel == "azimuthal":
        k = hyp.run_property(st, rel, dict(E=E_ST, th=T_ST, ph=T_ST), r.azimuthal, n, sv)
    elif rel == "bounds":
        k = hyp.run_property(st, rel, dict(E=E_ST, th=T_ST), r.bounds, n, sv)
    elif rel == "ratio_form":
        k = hyp.run_property(st, rel, dict(E=E_ST, th=T_ST), r.ratio_form, n, sv)
    elif rel == "compton_energy":
        k = hyp.run_property(st, rel, dict(E=E_ST, t1=T0PI_ST, t2=T0PI_ST), r.compton_energy, n, sv)
    elif rel == "symmetry":
        k = hyp.run_property(st, rel, dict(E=E_ST, th=T_ST, ph=T_ST), r.symmetry, n, sv)
    elif rel == "nonpositive":
        k = hyp.run_property(st, rel, dict(E=hs.one_of(hs.floats(-1e6, 0.0), hs.sampled_from([0.0, -0.0, -1.0, -1e-300])), th=T_ST, ph=T_ST),
                             r.nonpositive, max(50, n // 5), sv)
    elif rel == "grid":
        # structured part: every special energy x every special angle through all relations
        for E in SPECIAL_E:
            for res in [r.total_is_integral(st, E)]:
                if res:
                    st.violation(*res)
            for th in SPECIAL_T:
                for f in (r.finite_positive, r.bounds, r.ratio_form):
                    res = f(st, E, th)
                    if res:
                        st.violation(*res)
                for ph in (0.0, PI / 4, 1.0):
                    for f in (r.azimuthal, r.symmetry):
                        res = f(st, E, th, ph)
                        if res:
                            st.violation(*res)
        # neighbourhoods of the directions in which the polarised forms vanish (theta near +-pi/2, phi near 0 mod pi): every pair of small offsets
        for E in SPECIAL_E:
            for th0 in (PI / 2, -PI / 2, 3 * PI / 2):
                for d1 in NEAR:
                    for ph0 in (0.0, PI, -PI):
                        for d2 in NEAR:
                            for f in (r.azimuthal, r.symmetry):
                                res = f(st, E, th0 + d1, ph0 + d2)
                                if res:
                                    st.violation(*res)
        k = 0
    elif rel == "order":
        # the value of a call does not depend on the call before it: the same argument tuples in E-major, theta-major, phi-major and
        # seeded random order must give bit-identical values (a remembered intermediate keyed on part of the arguments breaks this)
        rng = random.Random(mix(seed, "order"))
        Es = [10.0 ** rng.uniform(-3, 5) for _ in range(6)] + [1.0, 510.998928]
        ths = [rng.uniform(-4 * PI, 4 * PI) for _ in range(6)] + [0.0, PI / 2, PI]
        phs = [rng.uniform(-4 * PI, 4 * PI) for _ in range(2)] + [0.0]
        sets = {"DCS_Thoms": [(a,) for a in ths], "DCSP_Thoms": [(a, b) for a in ths for b in phs], "CS_KN": [(e,) for e in Es],
                "DCS_KN": [(e, a) for e in Es for a in ths], "DCSP_KN": [(e, a, b) for e in Es for a in ths for b in phs],
                "ComptonEnergy": [(e, a) for e in Es for a in ths]}
        for fn, pts in sorted(sets.items()):
            ref = {}
            for a in pts:
                ref[a] = r.v(fn, *a)
            orders = [sorted(pts, key=lambda a: tuple(reversed(a))), sorted(pts, key=lambda a: (a[1:], a[0]))]
            for _ in range(3):
                o = list(pts); rng.shuffle(o); orders.append(o)
            for o in orders:
                prev = None
                for a in o:
                    st.ev()
                    got = r.v(fn, *a)
                    if prev is not None and any(x == y for x, y in zip(prev, a)):
                        st.nt_key("order", fn, a, prev)
                    if got != ref[a] and not (got[0] != got[0] and ref[a][0] != ref[a][0]):
                        st.violation("order:" + fn, dict(fn=fn, args=list(a), previous=list(prev) if prev else None), ref[a], got)
                        break
                    prev = a
        st.sample("order", dict(E=Es[:3], theta=ths[:3], phi=phs), cap=1)
        k = 0
    st.cls("examples:" + rel, k)
    return st


RELS = ["grid", "order", "finite_positive", "total_is_integral", "azimuthal", "bounds", "ratio_form", "compton_energy", "symmetry", "nonpositive"]


def run(ctx):
    n = 2500 if ctx.quick else 60000
    ctx.rule = ("Hypothesis (seeded by VERIF_SEED, database off): E = 10^U(-6,6) keV or a decade/special value, theta/phi in [-4pi,4pi] or a special "
                "value (0, +-1e-8, +-pi/2, +-pi, 2pi, 3pi, 4pi); %d examples per relation (1/10 for the quadrature relation) + the full special grid. "
                "Relations: finite&positive; CS_KN = 2pi*int DCS_KN (Gauss-Legendre 96/192 nodes, unconverged = inconclusive, 1e-9); azimuthal average "
                "(8 phi, 1e-12); DCS_KN<=DCS_Thoms, CS_KN<=sigma_T and a->0 limits; Compton-ratio form (1e-12); Compton energy endpoints and monotone; "
                "evenness (exact) and 2pi-periodicity (1e-11); E<=0 is an error; call-order independence (same tuples in E-major, angle-major and "
                "shuffled order: bit-identical). non-trivial = E outside [1,100] keV or theta not a multiple of pi/2; "
                "distinct by (relation, E, theta, phi)" % n)
    b = ctx.build("plain", "A")
    items = [(b["lib"], b["src"], rel, n, ctx.seed) for rel in RELS]
    if not ctx.quick:
        items += [(b["lib"], b["src"], rel, n, ctx.seed + 1000 * k) for rel in RELS[1:] for k in (1, 2)]
        items += [(b["lib"], b["src"], "order", n, ctx.seed + 7919 * k) for k in range(1, 40)]
    ctx.stats.merge(common.pmap(work, items))
    ctx.assumptions = ["numpy Gauss-Legendre nodes; quadrature self-checked by node doubling", "libm cos/sin shared with the library"]


def replay(ctx, rec):
    b = ctx.build("plain", "A")
    h = xrl.Headers(b["src"])
    r = R(xrl.Lib(b["lib"], h), h)
    c = rec["case"]
    sig = rec["signature"]
    st = Stats()
    res = None
    E, th, ph = c.get("E"), c.get("theta"), c.get("phi", c.get("phi0", 0.0))
    if "args" in c and sig.startswith(("positive-finite", "nonpositive")):
        a = c["args"]
        fn = c["fn"]
        val, err = r.v(fn, *a)
        ok = (err is not None and val == 0.0) if sig.startswith("nonpositive") else (err is None and math.isfinite(val) and val > 0)
        print("replay %s%r -> %r %r" % (fn, a, val, err))
        return ok
    if sig.startswith("order"):
        fn, a, prev = c["fn"], c["args"], c.get("previous")
        far = [x * 1.37 + 0.11 for x in a]
        r.v(fn, *far); v1 = r.v(fn, *a)
        if prev:
            r.v(fn, *prev)
        v2 = r.v(fn, *a)
        print("replay %s%r: after unrelated call %r, after %r %r" % (fn, a, v1, prev, v2))
        return v1 == v2
    if sig.startswith("integral"):
        res = r.total_is_integral(st, E)
    elif sig.startswith("azimuthal"):
        res = r.azimuthal(st, E, th, ph)
    elif sig.startswith(("bounds", "limit")):
        res = r.bounds(st, E, th if th is not None else 1.0)
    elif sig.startswith("ratio"):
        res = r.ratio_form(st, E, th)
    elif sig.startswith("compton"):
        t = c.get("t", [0.3, 2.0])
        res = r.compton_energy(st, E, t[0], t[1])
    elif sig.startswith("symmetry"):
        res = r.symmetry(st, E, th, ph)
    print("replay:", res)
    return res is None
