"""C19 - the pure-Java implementation is observationally equivalent to the C library.
One generated argument stream (the C03 sweep restricted to names that exist as public static methods of Xraylib, found by reflection) is
executed by the C interpreter and by a Java reflection harness (java/JHarness.java, compiled offline against a stub of the only external
class); both data configurations, the Java data file being dumped by pr_data_java.c from the same sources."""
import math, os, random, re, subprocess
import common, vbuild, calls, apigen, apisweep, c03
from common import Stats, mix

VERIF = common.VERIF
REL = 1e-8   # see DESIGN 0'.2: C interpolates knots printed with %.10E, Java the full doubles; squares of interpolants (DCS*_Rayl at large q) reach 1.6e-9
# quantities that pass through zero (or are built from one that does): a small absolute term next to the relative tolerance.  FF_Rayl oscillates
# around 0 at large q (e.g. FF_Rayl(82, 147.49) = -3.5e-4), the Rayleigh differential cross sections inherit that through F^2
SIGN_CHANGING = {"FF_Rayl": 1e-9, "DCS_Rayl": 1e-14, "DCSb_Rayl": 1e-12, "DCS_Rayl_CP": 1e-14, "DCSb_Rayl_CP": 1e-12, "Fi": 1e-7, "Fii": 1e-7, "Refractive_Index_Re": 1e-12, "Refractive_Index": 1e-12, "Crystal_F_H_StructureFactor": 1e-7,
                 "Crystal_F_H_StructureFactor_Partial": 1e-7, "Atomic_Factors": 1e-7, "MomentTransf": 1e-12, "Q_scattering_amplitude": 1e-12,
                 "DCSP_Rayl": 1e-14, "DCSP_Compt": 1e-15, "DCSPb_Rayl": 1e-12, "DCSPb_Compt": 1e-13, "DCSP_Thoms": 1e-15, "DCSP_KN": 1e-15,
                 "DCSP_Rayl_CP": 1e-14, "DCSP_Compt_CP": 1e-15, "DCSPb_Rayl_CP": 1e-12, "DCSPb_Compt_CP": 1e-13}


def build_java(ctx, b, tag):
    """prdata_java -> xraylib.dat; javac of java/*.java + stub + JHarness -> classes dir"""
    jd = os.path.join(ctx.sdir, "java_" + tag)
    os.makedirs(jd, exist_ok=True)
    src = b["src"]
    pj = os.path.join(jd, "prdata_java")
    cmd = [b["cc"]] + b["cflags"].split() + ["-I" + i for i in b["incs"]] + [os.path.join(src, "java", "pr_data_java.c"), os.path.join(b["bdir"], "src", "libprdata.a"), "-lm", "-o", pj]
    rc, out = vbuild.run(cmd)
    if rc != 0:
        raise vbuild.BuildError("prdata_java failed to build\n" + out[-3000:])
    rc, out = vbuild.run([pj, src], cwd=jd)
    if rc != 0 or not os.path.exists(os.path.join(jd, "xraylib.dat")):
        raise vbuild.BuildError("prdata_java failed to run\n" + out[-2000:])
    import glob
    srcs = glob.glob(os.path.join(src, "java", "*.java")) + [os.path.join(VERIF, "java", "JHarness.java"),
                                                             os.path.join(VERIF, "java", "stub", "org", "apache", "commons", "math3", "complex", "Complex.java")]
    rc, out = vbuild.run(["javac", "-encoding", "UTF-8", "-nowarn", "-d", jd] + srcs)
    if rc != 0:
        raise vbuild.BuildError("javac failed\n" + out[-3000:])
    return jd


def numbers(enc):
    """[(kind, value)] sequence of an encoded result: floats as ('f', x), everything else as ('t', token)"""
    out = []
    for tok in re.split(r"[;:,=]", enc):
        if tok[:1] == "g" and tok[1:3] in ("0x", "-0"):
            tok = tok[1:]          # gamma energies are encoded as g<energy>
        if re.fullmatch(r"-?0x[0-9a-f.]+p[+-]?\d+|-?inf|-?nan|-?0x0\.0p\+?0", tok):
            try:
                out.append(("f", float.fromhex(tok)))
                continue
            except ValueError:
                pass
            out.append(("f", float(tok)))
        else:
            out.append(("t", tok))
    return out


CRYSTAL_FNS = {"Bragg_angle", "Q_scattering_amplitude", "Crystal_dSpacing", "Crystal_F_H_StructureFactor", "Crystal_F_H_StructureFactor_Partial",
               "Crystal_UnitCellVolume", "Crystal_GetCrystal", "Crystal_MakeCopy"}


def same(fn, a, b):
    na, nb = numbers(a), numbers(b)
    if len(na) != len(nb):
        return False
    abs_tol = SIGN_CHANGING.get(fn, 0.0)
    rel = REL
    if fn in CRYSTAL_FNS:
        # the built-in crystals of the C library are single-precision (%f float literals in the generated tables), Java holds the doubles of
        # Crystals.dat: 1e-6 relative on cells and d-spacings, and a phase error of 2*pi*|h|*1e-6 on structure factors
        rel = 2e-6
        mag = max([abs(v) for k, v in na if k == "f" and math.isfinite(v)] + [1.0])
        abs_tol = 2e-6 if fn in ("Crystal_GetCrystal", "Crystal_MakeCopy") else 1e-4 * mag
        if fn.startswith("Crystal_F_H_StructureFactor"):
            # a structure factor is a sum of hundreds of electrons' worth of terms with phases 2*pi*(hx+ky+lz): single-precision coordinates
            # (6e-8) shift each phase by up to 2*pi*(|h|+|k|+|l|)*6e-8, i.e. the sum by about 4e-6 x (number of electrons in the cell) - a few 1e-3
            # for the largest built-in cells - however small the sum itself is (forbidden reflections: -1.2e-4 in C against 3e-13 in Java for
            # Muscovite (3,-6,2), found by the thorough tier)
            abs_tol = max(abs_tol, 3e-3)
    for (ka, va), (kb, vb) in zip(na, nb):
        if ka != kb:
            return False
        if ka == "t":
            if va != vb:
                return False
        else:
            if va == vb:
                continue
            if math.isnan(va) or math.isnan(vb):
                return False
            if abs(va - vb) > rel * max(abs(va), abs(vb)) + abs_tol:
                return False
    return True


def work(item):
    exe, jd, src, config, fns, seed, budget, quick, sdir, tag = item
    st = Stats()
    h, desc = apigen.descriptors(src)
    vals = apisweep.Values(h, src, mix(seed, "c19", tag))
    vals.nist_names, vals.nuc_names, vals.crystal_names = c03.catalogue_names(exe, sdir, tag)
    import bisect
    alledges = sorted({e for lst in vals.edges.values() for e in lst} | {0.1, 1.0, 800.0, 1000.0, 2000.0, 10000.0, 20000.0})

    def near_discontinuity(args):
        # Java holds the full-precision tables, C the %.10E text: exactly at an absorption edge / table end the 1e-11 difference decides which side
        # of a jump an argument falls on.  That is round-off of the build, not a translation error, so such arguments are not compared.
        for a in args:
            if isinstance(a, float) and a > 0:
                i = bisect.bisect_left(alledges, a)
                for j in (i - 1, i):
                    if 0 <= j < len(alledges) and abs(a - alledges[j]) <= 1e-6 * alledges[j]:
                        return True
        return False

    plan = []
    for fn in fns:
        for kinds, args in apisweep.sweep(h, desc, vals, fn, budget, quick):
            if near_discontinuity(args):
                st.cls("near_discontinuity_skipped")
                continue
            if any(a == "N" for a in args):
                continue      # a NULL out parameter has no Java counterpart (the Java methods return all outputs)
            if any(k == "s" and (a is None or (isinstance(a, str) and any(ord(ch) > 126 or ord(ch) < 32 for ch in a))) for k, a in zip(kinds, args)) or any(a == "cNULL" for a in args):
                continue
            plan.append((fn, kinds, args))
    # text a Java caller can write and a C caller sees as UTF-8 bytes: digits and letters outside ASCII are not part of the formula grammar on either side
    for fn in fns:
        if fn in ("CompoundParser", "CS_Total_CP", "SymbolToAtomicNumber", "Refractive_Index_Re"):
            kinds0 = apigen.arg_kinds(desc[fn])
            for s in ("H\uff12O", "H\u0662O", "Ca5(PO\u09674)3F", "O\uff10.5", "Fe\u2082O\u2083", "\u0421u", "Si\u00b2"):
                if fn == "CompoundParser" or fn == "SymbolToAtomicNumber":
                    plan.append((fn, kinds0, [s]))
                elif fn == "CS_Total_CP":
                    plan.append((fn, kinds0, [s, 10.0]))
                else:
                    plan.append((fn, kinds0, [s, 10.0, 2.0]))
    # neighbour runs: consecutive calls that differ in exactly one argument (base, variant, base, variant ...), so that anything one
    # implementation remembers between calls under an incomplete key shows up as a difference from the stateless other one
    rng = random.Random(mix(seed, "c19n", tag))
    byfn = {}
    for fn, kinds, args in plan:
        byfn.setdefault(fn, []).append((kinds, args))
    for fn in sorted(byfn):
        ent = byfn[fn]
        if len(ent) < 3 or len(ent[0][0]) < 2:
            continue
        for run in range(12 if quick else 60):
            kinds, base = rng.choice(ent)
            pos = [i for i, k in enumerate(kinds) if k in ("i", "d")]
            if not pos:
                break
            i = pos[run] if run < len(pos) else rng.choice(pos)      # every argument position is the varied one at least once
            alts = [a[i] for k2, a in rng.sample(ent, min(len(ent), 6)) if k2 == kinds and a[i] != base[i]][:2]
            if kinds[i] == "d" and isinstance(base[i], float) and base[i] > 0:
                alts.append(base[i] * rng.choice((0.5, 0.9, 1.1)))
            for alt in alts:
                v = list(base)
                v[i] = alt
                if near_discontinuity(v):
                    continue
                plan.append((fn, kinds, base))
                plan.append((fn, kinds, tuple(v) if isinstance(base, tuple) else v))
                st.cls("neighbour_pairs")
    # late repeats: a few calls of every function once more at the very end of the stream - after every result object of the stream has been
    # overwritten by its owner (the Java harness scribbles over what it gets), so a result that aliased internal state shows here
    for fn in sorted(byfn):
        for kinds, args in rng.sample(byfn[fn], min(len(byfn[fn]), 6)):
            plan.append((fn, kinds, args))
            st.cls("late_repeats")
    lines = [calls.line(fn, k, a) for fn, k, a in plan]
    out_c, rc, err = calls.run(exe, "simple", lines, sdir, tag + "_c")
    cf = os.path.join(sdir, "calls_%s_c.txt" % tag)
    jf = os.path.join(sdir, "out_%s_j.txt" % tag)
    p = subprocess.run(["java", "-Xss16m", "-cp", jd, "com.github.tschoonj.xraylib.JHarness", cf, jf], stdout=subprocess.PIPE, stderr=subprocess.PIPE, timeout=3600)
    out_j = open(jf, encoding="latin-1").read().split("\n") if os.path.exists(jf) else []
    if out_j and out_j[-1] == "":
        out_j.pop()
    if p.returncode != 0 or len(out_j) != len(lines) or len(out_c) != len(lines):
        st.violation("harness-failed", dict(config=config, tag=tag), "both harnesses complete", (p.stderr.decode("utf-8", "replace") + err)[-1500:])
        return st
    if tag.endswith(("0", "5")):
        # the same stream dealt to 8 Java threads: every answer must be the one of the serial Java run (methods are static and documented pure)
        jt = os.path.join(sdir, "out_%s_jt.txt" % tag)
        pt_ = subprocess.run(["java", "-Xss16m", "-cp", jd, "com.github.tschoonj.xraylib.JHarness", cf, jt, "8"], stdout=subprocess.PIPE, stderr=subprocess.PIPE, timeout=3600)
        out_t = open(jt, encoding="latin-1").read().split("\n") if os.path.exists(jt) else []
        if out_t and out_t[-1] == "":
            out_t.pop()
        if pt_.returncode != 0 or len(out_t) != len(out_j):
            st.violation("harness-failed", dict(config=config, tag=tag, what="threads"), "threaded Java run completes", pt_.stderr.decode("utf-8", "replace")[-1200:])
        else:
            for (fn, kinds, args), a1, a2 in zip(plan, out_j, out_t):
                st.ev()
                # objects are scribbled over after encoding: a call that returns shared state is caught by the serial comparison already
                if a1 != a2:
                    st.violation("java-threads-differ:" + fn, dict(config=config, fn=fn, args=[a if not isinstance(a, bytes) else a.decode("latin-1") for a in args]), a1[:160], a2[:160])
                    break
            st.cls("java_thread_runs")
        # the compound functions once more, concentrated: their successful serial answers, repeated to 40 000 calls, on 16 threads
        idx = [i for i, (fn, kinds, args) in enumerate(plan) if (fn.endswith("_CP") or fn.startswith("Refractive_Index") or fn == "CompoundParser") and out_j[i].startswith("R\t") and out_j[i].endswith("\tE\t-")]
        if len(idx) >= 8:
            rng2 = random.Random(mix(seed, "c19stress", tag))
            pick = [rng2.choice(idx) for _ in range(40000)]
            cf2, jt2 = os.path.join(sdir, "calls_%s_stress.txt" % tag), os.path.join(sdir, "out_%s_stress.txt" % tag)
            with open(cf2, "w") as f:
                f.write("\n".join(lines[i] for i in pick) + "\n")
            ps = subprocess.run(["java", "-Xss16m", "-cp", jd, "com.github.tschoonj.xraylib.JHarness", cf2, jt2, "16"], stdout=subprocess.PIPE, stderr=subprocess.PIPE, timeout=3600)
            out_s = open(jt2, encoding="latin-1").read().split("\n") if os.path.exists(jt2) else []
            if ps.returncode != 0 or len(out_s) < len(pick):
                st.violation("harness-failed", dict(config=config, tag=tag, what="thread stress"), "threaded Java run completes", ps.stderr.decode("utf-8", "replace")[-1200:])
            else:
                for i, got in zip(pick, out_s):
                    st.ev()
                    if got != out_j[i]:
                        fn, kinds, args = plan[i]
                        st.violation("java-threads-differ:" + fn, dict(config=config, fn=fn, args=[a if not isinstance(a, bytes) else a.decode("latin-1") for a in args], threads=16), out_j[i][:160], got[:160])
                        break
                st.cls("java_thread_stress_calls", len(pick))
    for (fn, kinds, args), oc, oj in zip(plan, out_c, out_j):
        st.ev()
        if oj.startswith("X\t"):
            st.cls("java_skipped:" + oj.split("\t")[1])
            continue
        pc = calls.parse(oc)
        if pc.get("result") and pc["result"].startswith("l:"):
            pc["result"] = pc["result"].split(";oi=")[0]     # the C list functions also report the count through an out parameter
        tj = oj.split("\t")
        jres, jerr = tj[1], tj[3]
        case = dict(config=config, fn=fn, args=[a if not isinstance(a, bytes) else a.decode("latin-1") for a in args])
        if pc["err"] is None:
            if jerr != "-":
                st.violation("java-throws-c-succeeds:" + fn, case, pc["result"][:120], jerr[:160])
            elif not same(fn, pc["result"], jres):
                st.violation("value-differs:" + fn, case, pc["result"][:200], jres[:200])
            else:
                r = pc["result"]
                if not (r.startswith(("i:", "s:", "l:", "v")) or fn in ("AtomicWeight", "ElementDensity", "EdgeEnergy", "FluorYield", "JumpFactor", "RadRate", "AtomicLevelWidth", "ElectronConfig", "CosKronTransProb")):
                    st.nt_key(fn, tuple(str(a) for a in args))
                st.cls("both_value")
                st.sample(fn, dict(case, c=pc["result"][:60], java=jres[:60]), cap=1)
        else:
            if jerr == "-":
                st.violation("c-fails-java-returns:" + fn, case, "exception (C: %s)" % pc["err"][1].decode("latin-1")[:80], jres[:160])
            else:
                st.cls("both_error")
                cmsg = pc["err"][1].decode("latin-1")
                jmsg = bytes.fromhex(jerr.split(":", 1)[1]).decode("latin-1") if ":" in jerr else ""
                if cmsg != jmsg:
                    st.cls("error_message_differs_(not_judged)")
    return st


def run(ctx):
    import concurrent.futures as cf
    quick = ctx.quick
    budget = 2500 if quick else 30000
    with cf.ThreadPoolExecutor(2) as ex:
        fa = ex.submit(ctx.build, "plainstatic", "A", ["src/libprdata.a"])
        fb = ex.submit(ctx.build, "plainstatic", "B", ["src/libprdata.a"])
        builds = {"A": fa.result(), "B": fb.result()}
    items = []
    listed = None
    for cfg in ("B", "A"):
        b = builds[cfg]
        exe, h, desc = calls.build_harness(ctx.sdir, b)
        jd = build_java(ctx, b, cfg)
        p = subprocess.run(["java", "-cp", jd, "com.github.tschoonj.xraylib.JHarness", "--methods"], stdout=subprocess.PIPE, stderr=subprocess.PIPE)
        jm = {l.split()[0] for l in p.stdout.decode().split("\n") if l.strip()}
        fns = sorted(n for n in desc if n in jm)
        if cfg == "B":
            # public static fields of the Java class that carry the name of a C macro must carry its value (ints exactly, reals to 1e-12): this is
            # the run-time counterpart of C20's static reading, and the only one for constants that travel through xraylib.dat
            pf = subprocess.run(["java", "-cp", jd, "com.github.tschoonj.xraylib.JHarness", "--fields"], stdout=subprocess.PIPE, stderr=subprocess.PIPE)
            nf = 0
            for l in pf.stdout.decode().split("\n"):
                w = l.split()
                if len(w) != 3 or w[0] not in h.val:
                    continue
                nf += 1
                ctx.stats.ev()
                cv = h.val[w[0]]
                jv = int(w[2]) if w[1] == "int" else float.fromhex(w[2])
                ok = (jv == cv) if (w[1] == "int" and isinstance(cv, int)) else (abs(jv - cv) <= 1e-12 * max(abs(jv), abs(cv)))
                if not ok:
                    ctx.stats.violation("constant-differs:" + w[0], dict(config=cfg, constant=w[0], java_type=w[1]), cv, jv)
            ctx.stats.cls("java_constants_compared", nf)
            if pf.returncode != 0 or nf < 100:
                ctx.stats.violation("harness-failed", dict(config=cfg, what="--fields"), "field dump of Xraylib", pf.stderr.decode("utf-8", "replace")[-800:])
        if listed is None:
            listed = True
            ctx.extra["c_functions_without_java_method"] = sorted(n for n in desc if n not in jm)
            ctx.extra["java_methods_compared"] = len(fns)
        nparts = 16 if cfg == "B" else 6
        b2 = budget if cfg == "B" else max(200, budget // 4)
        for k in range(nparts):
            items.append((exe, jd, b["src"], cfg, fns[k::nparts], ctx.seed, b2, quick, ctx.sdir, "%s%d" % (cfg, k)))
    ctx.stats.merge(common.pmap(work, items))
    ctx.rule = ("one argument stream per function: the C03 sweep (budget %d per function in configuration B, a quarter in A; discrete classes exhaustive "
                "where the product fits, else seeded sampling covering every class value) over the %d functions that exist both as C prototype and as "
                "public static Java method; strings restricted to printable ASCII, NULL not expressible; followed by neighbour runs (consecutive calls differing in one argument; "
                "the Java harness keeps one Crystal_Struct object per crystal for the whole stream). Same outcome class required (value vs "
                "exception); values within 1e-8 relative (+ a small absolute term for sign-changing quantities), strings/ints exact. "
                "non-trivial = both succeed on a computed quantity (not a plain table cell), distinct by (function, arguments)" % (budget, ctx.extra.get("java_methods_compared", 0)))
    ctx.assumptions = ["exception type and message equality are recorded but not judged (the property only requires 'throws iff')",
                       "Java reads full-precision doubles, C reads the %.10E text: 1e-8 relative tolerance (1.6e-9 observed for DCSb_Rayl(15, 1026 keV) in a thorough run)"]


def replay(ctx, rec):
    c = rec["case"]
    cfg = c.get("config", "B")
    b = ctx.build("plainstatic", cfg, ["src/libprdata.a"])
    exe, h, desc = calls.build_harness(ctx.sdir, b)
    jd = build_java(ctx, b, cfg)
    st = work((exe, jd, b["src"], cfg, [c["fn"]], rec.get("seed", 1), 1200, True, ctx.sdir, "replay"))
    bad = [v for v in st.violations if v["sig"] == rec["signature"]]
    for v in bad[:2]:
        print("replay:", v["sig"], v["case"], v["expected"], v["got"])
    return not bad
