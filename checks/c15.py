"""C15 - built-in databases are self-consistent and addressable in every documented way.
Exhaustive over the element table, NIST compounds, radionuclides and crystals: by-name / by-index / list / header macros agree, entries
are well formed, lookups return independent deep copies (mutate-copy-refetch, free in all orders)."""
import ctypes, itertools, math, re
from ctypes import c_int, c_void_p, c_char_p, byref, POINTER, cast
import common, xrl, formulas
from common import Stats


def cstr_list(L, fn, *pre):
    """call a 'char **f(..., int *n, error)' list function -> (names, err); frees everything with xrlFree"""
    n = c_int(-12345)
    slot = c_void_p(None)
    lst = L.fn[fn](*pre, byref(n), byref(slot))
    err = None
    if slot.value:
        e = cast(slot, POINTER(xrl.XrlError)).contents
        err = (e.code, e.message)
        L._free(slot)
    if not lst:
        return None, n.value, err
    names = []
    i = 0
    raw = cast(lst, POINTER(c_void_p))
    while raw[i]:
        names.append(ctypes.string_at(raw[i]))
        L.fn["xrlFree"](raw[i])
        i += 1
        if i > 100000:
            break
    L.fn["xrlFree"](cast(lst, c_void_p))
    return names, n.value, err


def snap_nist(c):
    n = c.nElements
    return dict(name=c.name, elements=[c.Elements[i] for i in range(n)], fractions=[c.massFractions[i] for i in range(n)], density=c.density)


def snap_nuc(c):
    return dict(name=c.name, Z=c.Z, A=c.A, N=c.N, Z_xray=c.Z_xray, lines=[c.XrayLines[i] for i in range(c.nXrays)],
                xint=[c.XrayIntensities[i] for i in range(c.nXrays)], ge=[c.GammaEnergies[i] for i in range(c.nGammas)],
                gi=[c.GammaIntensities[i] for i in range(c.nGammas)])


def snap_cryst(c):
    return dict(name=c.name, cell=[c.a, c.b, c.c, c.alpha, c.beta, c.gamma], volume=c.volume,
                atoms=[(c.atom[i].Zatom, c.atom[i].fraction, c.atom[i].x, c.atom[i].y, c.atom[i].z) for i in range(c.n_atom)])


def norm_macro(name):
    s = re.sub(r"[,/()]", "", name)
    s = re.sub(r"[^A-Za-z0-9]", "_", s)
    return s.upper()


def run(ctx):
    ctx.rule = ("exhaustive: Z in [-2,110] and 107 symbols (+ near-miss strings) for the element table; every index in [-2,n+2], every list name and "
                "every NIST_COMPOUND_*/RADIO_NUCLIDE_* macro for the 180 compounds and 10 nuclides; all 38 crystals; copy-mutate-refetch and free "
                "in all orders (all 24 permutations of 4 objects). non-trivial = every (entry, addressing mode / well-formedness fact) - distinct "
                "by construction")
    ctx.exhaustive = True
    b = ctx.build("plain", "A")
    st = common.pmap(work, [(b["lib"], b["src"], part) for part in ("elements", "nist", "nuclides", "crystals", "copies", "crystals-extended")])
    ctx.stats.merge(st)
    ctx.assumptions = ["macro name = entry name with , / ( ) dropped, other non-alphanumerics replaced by '_', upper-cased (verified 180/180 on this tree)",
                       "IUPAC symbol table embedded in the harness (lib/formulas.py) as independent reference for the element table"]


def fact(st, ok, sig, case, expected=None, got=None):
    st.ev()
    st.nt()
    if not ok:
        st.violation(sig, case, expected, got)
    return ok


def work(item):
    lib_path, src, part = item
    h = xrl.Headers(src)
    L = xrl.Lib(lib_path, h)
    st = Stats()
    if part == "elements":
        mm = h.val["MENDEL_MAX"]
        seen = {}
        for z in list(range(-2, mm + 4)) + [-2**31, 2**31 - 1]:
            p, err = L.call("AtomicNumberToSymbol", z)
            if 1 <= z <= mm:
                ok = fact(st, bool(p) and err is None, "symbol:error", dict(Z=z), "a symbol", err)
                if not ok:
                    continue
                sym = ctypes.string_at(p)
                L.fn["xrlFree"](p)
                fact(st, sym.decode() == formulas.SYMBOLS[z - 1], "symbol:value", dict(Z=z), formulas.SYMBOLS[z - 1], sym)
                fact(st, sym not in seen, "symbol:duplicate", dict(Z=z, other=seen.get(sym)), "unique", sym)
                seen[sym] = z
                back, e2 = L.call("SymbolToAtomicNumber", sym)
                fact(st, e2 is None and back == z, "symbol:roundtrip", dict(Z=z, symbol=sym), z, dict(value=back, error=e2))
                st.sample("element", dict(Z=z, symbol=sym.decode()), cap=2)
            else:
                fact(st, (not p) and err is not None, "symbol:noerror", dict(Z=z), "NULL and error", dict(value=p, error=err))
        for s in [b"", b"h", b"HE", b"he", b"Xx", b"H ", b" H", b"Hh", b"Uuo", b"A", b"Fe2", None]:
            v, err = L.call("SymbolToAtomicNumber", s)
            fact(st, v == 0 and err is not None, "symbol:accepts-nonsymbol", dict(symbol=s), "0 and error", dict(value=v, error=err))
        return st
    if part == "nist":
        names, n, err = cstr_list(L, "GetCompoundDataNISTList")
        fact(st, names is not None and err is None and n == len(names), "nist:list", {}, "list of n names", dict(n=n, error=err))
        fact(st, len(set(names)) == len(names), "nist:duplicate-names", {}, "unique", None)
        macros = {k: v for k, v in h.val.items() if k.startswith("NIST_COMPOUND_")}
        fact(st, len(macros) == len(names), "nist:macro-count", {}, len(names), len(macros))
        byval = {}
        for k, v in macros.items():
            byval.setdefault(v, []).append(k)
        for i in range(-2, len(names) + 3):
            p, err = L.call("GetCompoundDataNISTByIndex", i)
            if not (0 <= i < len(names)):
                fact(st, (not p) and err is not None, "nist:index-noerror", dict(index=i), "NULL and error", err)
                continue
            if not fact(st, bool(p) and err is None, "nist:index-error", dict(index=i), "entry", err):
                continue
            s1 = snap_nist(p.contents)
            L.fn["FreeCompoundDataNIST"](p)
            fact(st, s1["name"] == names[i], "nist:index-vs-list", dict(index=i), names[i], s1["name"])
            p2, err = L.call("GetCompoundDataNISTByName", names[i])
            if fact(st, bool(p2) and err is None, "nist:name-error", dict(name=names[i]), "entry", err):
                s2 = snap_nist(p2.contents)
                L.fn["FreeCompoundDataNIST"](p2)
                fact(st, s1 == s2, "nist:name-vs-index", dict(index=i, name=names[i]), s1, s2)
            mname = "NIST_COMPOUND_" + norm_macro(names[i].decode())
            fact(st, macros.get(mname) == i, "nist:macro", dict(index=i, name=names[i], macro=mname), i, macros.get(mname, byval.get(i)))
            e = s1["elements"]
            fact(st, e == sorted(set(e)) and len(e) > 0 and all(1 <= z <= 107 for z in e), "nist:elements-order", dict(index=i, name=names[i]), "strictly ascending", e)
            fact(st, all(f > 0 for f in s1["fractions"]) and abs(sum(s1["fractions"]) - 1.0) <= 1e-5, "nist:fractions",
                 dict(index=i, name=names[i]), "positive, sum 1 (1e-5)", [s1["fractions"], sum(s1["fractions"])])
            fact(st, s1["density"] > 0, "nist:density", dict(index=i, name=names[i]), "> 0", s1["density"])
            st.sample("nist", dict(index=i, name=names[i].decode(), macro=mname, elements=e), cap=2)
        near = [n + b", PPO doped" for n in names] + [n + b"x" for n in names] + [n[:-1] for n in names if n[:-1] not in names] + [n.lower() for n in names if n.lower() not in names]
        for bad in [b"", b"water, liquid", names[0] + b" ", names[3][:-1], b"H2O", None] + near:      # every listed name extended, cut and case-folded
            p, err = L.call("GetCompoundDataNISTByName", bad)
            fact(st, (not p) and err is not None, "nist:accepts-unknown", dict(name=bad), "NULL and error", err)
        return st
    if part == "nuclides":
        names, n, err = cstr_list(L, "GetRadioNuclideDataList")
        fact(st, names is not None and err is None and n == len(names), "nuclide:list", {}, "list", dict(n=n, error=err))
        fact(st, len(set(names)) == len(names), "nuclide:duplicate-names", {}, "unique", None)
        macros = {k: v for k, v in h.val.items() if k.startswith("RADIO_NUCLIDE_")}
        fact(st, len(macros) == len(names), "nuclide:macro-count", {}, len(names), len(macros))
        for i in range(-2, len(names) + 3):
            p, err = L.call("GetRadioNuclideDataByIndex", i)
            if not (0 <= i < len(names)):
                fact(st, (not p) and err is not None, "nuclide:index-noerror", dict(index=i), "NULL and error", err)
                continue
            if not fact(st, bool(p) and err is None, "nuclide:index-error", dict(index=i), "entry", err):
                continue
            s1 = snap_nuc(p.contents)
            L.fn["FreeRadioNuclideData"](p)
            fact(st, s1["name"] == names[i], "nuclide:index-vs-list", dict(index=i), names[i], s1["name"])
            p2, err = L.call("GetRadioNuclideDataByName", names[i])
            if fact(st, bool(p2) and err is None, "nuclide:name-error", dict(name=names[i]), "entry", err):
                s2 = snap_nuc(p2.contents)
                L.fn["FreeRadioNuclideData"](p2)
                fact(st, s1 == s2, "nuclide:name-vs-index", dict(index=i), s1, s2)
            fact(st, macros.get("RADIO_NUCLIDE_" + names[i].decode().upper()) == i, "nuclide:macro", dict(index=i, name=names[i]), i,
                 macros.get("RADIO_NUCLIDE_" + names[i].decode().upper()))
            fact(st, s1["A"] == s1["Z"] + s1["N"], "nuclide:A=Z+N", dict(name=names[i]), s1["Z"] + s1["N"], s1["A"])
            sym = formulas.SYMBOLS[s1["Z"] - 1] if 1 <= s1["Z"] <= 107 else "?"
            fact(st, s1["name"].decode() == "%d%s" % (s1["A"], sym), "nuclide:name", dict(name=names[i]), "%d%s" % (s1["A"], sym), s1["name"])
            fact(st, len(s1["lines"]) > 0 and all(x > 0 for x in s1["xint"]), "nuclide:xray-intensities", dict(name=names[i]), "> 0", s1["xint"])
            for ln in s1["lines"]:
                e, er = L.call("LineEnergy", s1["Z_xray"], ln)
                fact(st, er is None and e > 0, "nuclide:line-without-energy", dict(name=names[i], Z_xray=s1["Z_xray"], line=ln), "> 0", dict(value=e, error=er))
            fact(st, all(x > 0 for x in s1["ge"]) and all(x > 0 for x in s1["gi"]) and len(s1["ge"]) == len(s1["gi"]), "nuclide:gammas",
                 dict(name=names[i]), "> 0", [s1["ge"], s1["gi"]])
            st.sample("nuclide", dict(index=i, name=names[i].decode(), Z=s1["Z"], A=s1["A"], N=s1["N"], lines=s1["lines"][:4]), cap=2)
        for bad in [b"", b"55fe", b"55Fe ", b"Fe55", None] + [n + b"m" for n in names] + [n[:-1] for n in names if n[:-1] not in names] + [n.lower() for n in names if n.lower() not in names]:
            p, err = L.call("GetRadioNuclideDataByName", bad)
            fact(st, (not p) and err is not None, "nuclide:accepts-unknown", dict(name=bad), "NULL and error", err)
        return st
    if part == "crystals":
        names, n, err = cstr_list(L, "Crystal_GetCrystalsList", None)
        fact(st, names is not None and err is None and n == len(names) and n > 0, "crystal:list", {}, "list", dict(n=n, error=err))
        fact(st, names == sorted(set(names)), "crystal:sorted-unique", {}, "sorted, unique", names)
        for nm in names:
            p, err = L.call("Crystal_GetCrystal", nm, None)
            if not fact(st, bool(p) and err is None, "crystal:get-error", dict(name=nm), "entry", err):
                continue
            c = p.contents
            s = snap_cryst(c)
            fact(st, s["name"] == nm, "crystal:name", dict(name=nm), nm, s["name"])
            vol, ev = L.call("Crystal_UnitCellVolume", p)
            fact(st, ev is None and xrl.relerr(vol, s["volume"]) <= 1e-6, "crystal:volume", dict(name=nm), vol, s["volume"])
            fact(st, len(s["atoms"]) > 0, "crystal:no-atoms", dict(name=nm), "> 0 atoms", 0)
            for (z, fr, x, y, zz) in s["atoms"]:
                ff, ef = (L.call("FF_Rayl", z, 0.1)) if 1 <= z <= 120 else (0, ("Z",))
                fact(st, 1 <= z <= 98 and ef is None and 0 < fr <= 1.0 and all(math.isfinite(v) for v in (x, y, zz)), "crystal:atom",
                     dict(name=nm, atom=[z, fr, x, y, zz]), "1<=Z<=98 with form factor, 0<occupancy<=1", None)
            L.fn["Crystal_Free"](p)
            st.sample("crystal", dict(name=nm.decode(), cell=s["cell"], n_atom=len(s["atoms"])), cap=2)
        for bad in [b"", b"si", b"Si ", b"Unobtainium", None] + [n + b", doped" for n in names] + [n[:-1] for n in names if len(n) > 1 and n[:-1] not in names]:
            p, err = L.call("Crystal_GetCrystal", bad, None)
            fact(st, (not p) and err is not None, "crystal:accepts-unknown", dict(name=bad), "NULL and error", err)
        return st
    if part == "crystals-extended":
        # the crystal catalogue is the one database a program can extend: after additions (by AddCrystal and by single- and multi-crystal
        # files; names sorting before, between and after the shipped ones) the name list, lookup by name and uniqueness must still hold for
        # every entry, shipped or added.  Runs in this forked worker only.
        import os
        names0, n0, _ = cstr_list(L, "Crystal_GetCrystalsList", None)
        si, _ = L.call("Crystal_GetCrystal", b"Si", None)
        if not fact(st, bool(si) and names0, "crystal:get-error", dict(name="Si"), "entry", None):
            return st
        added = []
        tmp = os.path.join(os.environ.get("VERIF_TMP") or "/var/tmp", "xrlv.c15.%d.dat" % os.getpid())

        def consistent(step):
            names, n, err = cstr_list(L, "Crystal_GetCrystalsList", None)
            exp = sorted(set(names0) | set(added))
            if not fact(st, names == exp and n == len(exp), "crystal-extended:list", dict(step=step), [x.decode("latin-1") for x in exp][:6], [x.decode("latin-1") for x in (names or [])][:6]):
                return False
            for nm in names:
                p, err = L.call("Crystal_GetCrystal", nm, None)
                ok = fact(st, bool(p) and err is None and p.contents.name == nm, "crystal-extended:listed-but-not-found", dict(step=step, name=nm.decode("latin-1")), "entry", err)
                if p:
                    L.fn["Crystal_Free"](p)
                if not ok:
                    return False
            return True
        steps = [("add", b"0_before_all"), ("add", b"zz_after_all"), ("add", b"LiF_between"), ("file", [b"00_file_first"]), ("file", [b"Mica_file_mid"]),
                 ("file", [b"zzz_file_last"]), ("file", [b"Be_pair_a", b"~pair_b"]), ("add", b"AlphaA"), ("add", b"0_before_all"), ("file", [b"Mica_file_mid"]),
                 # names whose first difference to a shipped name is a byte >= 0x80 (UTF-8 text): sorting and searching must agree on where they go
                 ("add", b"LaB\xe2\x82\x86"), ("add", b"Ge\xc2\xb777K"), ("add", b"Si\xc3\xa9"), ("add", b"LaB\xe2\x82\x86")]
        for kind, what in steps:
            if kind == "add":
                c = si.contents
                cs = xrl.CrystalStruct()        # an own struct with the cell and atoms of Si under the new name (the library copies it)
                cs.name = what
                cs.a, cs.b, cs.c, cs.alpha, cs.beta, cs.gamma, cs.volume, cs.n_atom, cs.atom = c.a, c.b, c.c, c.alpha, c.beta, c.gamma, c.volume, c.n_atom, c.atom
                rv, err = L.call("Crystal_AddCrystal", ctypes.byref(cs), None)
                dup = what in added
                fact(st, (rv == 0 and err is not None) if dup else (rv == 1 and err is None), "crystal-extended:add", dict(name=what.decode("latin-1"), duplicate=dup), "rejected" if dup else "accepted", dict(rv=rv, error=err))
                if rv == 1 and not dup:
                    added.append(what)
            else:
                with open(tmp, "w") as f:
                    f.write("".join("#S 14 %s\n#UCELL 5 5 5 90 90 90\n#N 5\n#L Z F X Y Z\n14 1.0 0 0 0\n" % n.decode() for n in what) + "#EOF\n")
                rv, err = L.call("Crystal_ReadFile", tmp.encode(), None)
                os.unlink(tmp)
                dup = any(n in added for n in what)
                fact(st, (rv == 0 and err is not None) if dup else (rv == 1 and err is None), "crystal-extended:file", dict(names=[n.decode() for n in what], duplicate=dup), "rejected" if dup else "accepted", dict(rv=rv, error=err))
                if rv == 1 and not dup:
                    added.extend(what)
            if not consistent("%s %s" % (kind, what)):
                break
        # a file that defines one new name twice with another definition in between, not in name order: refused as a whole
        with open(tmp, "w") as f:
            f.write("".join("#S 14 %s\n#UCELL 5 5 5 90 90 90\n#N 5\n#L Z F X Y Z\n14 1.0 0 0 0\n" % n for n in ("Y_twice", "C_between", "Y_twice")) + "#EOF\n")
        rv, err = L.call("Crystal_ReadFile", tmp.encode(), None)
        os.unlink(tmp)
        fact(st, rv == 0 and err is not None, "crystal-extended:file", dict(names=["Y_twice", "C_between", "Y_twice"], duplicate="within the file"), "rejected", dict(rv=rv, error=err))
        consistent("file with a name defined twice")
        # an entry without atoms (a header-only block): lookups still hand out independent copies that can be released in any order
        with open(tmp, "w") as f:
            f.write("#S 1 Hollow_entry\n#UCELL 5 5 5 90 90 90\n#N 5\n#L Z F X Y Z\n#EOF\n")
        rv, err = L.call("Crystal_ReadFile", tmp.encode(), None)
        os.unlink(tmp)
        if rv == 1:
            added.append(b"Hollow_entry")
            p1, _ = L.call("Crystal_GetCrystal", b"Hollow_entry", None)
            p2, _ = L.call("Crystal_GetCrystal", b"Hollow_entry", None)
            if fact(st, bool(p1) and bool(p2), "crystal-extended:listed-but-not-found", dict(name="Hollow_entry"), "entry", None):
                a1 = ctypes.cast(p1.contents.atom, c_void_p).value
                a2 = ctypes.cast(p2.contents.atom, c_void_p).value
                fact(st, a1 is None or a2 is None or a1 != a2, "copy:same-object", dict(fn="Crystal_GetCrystal", name="Hollow_entry (no atoms)"), "distinct atom storage (or none)", a1)
                L.fn["Crystal_Free"](p1)
                L.fn["Crystal_Free"](p2)
            consistent("entry without atoms")
        L.fn["Crystal_Free"](si)
        st.sample("crystal-extended", dict(added=[a.decode("latin-1") for a in added]), cap=1)
        return st
    if part == "copies":
        # lookups hand out independent deep copies: scribble over every field of a copy, free it, fetch again, compare with a pristine snapshot
        kinds = [("GetCompoundDataNISTByIndex", (5,), snap_nist, "FreeCompoundDataNIST"), ("GetCompoundDataNISTByName", (b"Water, Liquid",), snap_nist, "FreeCompoundDataNIST"),
                 ("GetRadioNuclideDataByIndex", (2,), snap_nuc, "FreeRadioNuclideData"), ("GetRadioNuclideDataByName", (b"241Am",), snap_nuc, "FreeRadioNuclideData"),
                 ("Crystal_GetCrystal", (b"Si", None), snap_cryst, "Crystal_Free"), ("Crystal_GetCrystal", (b"Muscovite", None), snap_cryst, "Crystal_Free")]
        for fn, args, snap, free in kinds:
            p0, e0 = L.call(fn, *args)
            if not fact(st, bool(p0), "copy:fetch", dict(fn=fn, args=args), "entry", e0):
                continue
            ref = snap(p0.contents)
            p1, _ = L.call(fn, *args)
            fact(st, ctypes.addressof(p0.contents) != ctypes.addressof(p1.contents), "copy:same-object", dict(fn=fn), "distinct objects", None)
            c = p1.contents
            # scribble: overwrite name bytes and every array element / scalar
            name_addr = ctypes.cast(ctypes.pointer(c), POINTER(c_void_p))[0]
            ln = len(ctypes.string_at(name_addr))
            ctypes.memset(name_addr, ord("#"), ln)
            if snap is snap_nist:
                for i in range(c.nElements):
                    c.Elements[i] = -7
                    c.massFractions[i] = -1.5
                c.density = -3.0
            elif snap is snap_nuc:
                for i in range(c.nXrays):
                    c.XrayLines[i] = 12345
                    c.XrayIntensities[i] = -1.0
                for i in range(c.nGammas):
                    c.GammaEnergies[i] = -1.0
                    c.GammaIntensities[i] = -1.0
                c.Z = c.A = c.N = c.Z_xray = -1
            else:
                for i in range(c.n_atom):
                    c.atom[i].Zatom = -5
                    c.atom[i].fraction = 77.0
                    c.atom[i].x = c.atom[i].y = c.atom[i].z = -9.0
                c.a = c.b = c.c = c.alpha = c.beta = c.gamma = c.volume = -1.0
            fact(st, snap(p0.contents) == ref, "copy:aliased", dict(fn=fn, args=args), "first copy unaffected by mutation of second", None)
            L.fn[free](p1)
            p2, _ = L.call(fn, *args)
            fact(st, bool(p2) and snap(p2.contents) == ref, "copy:database-mutated", dict(fn=fn, args=args), ref, snap(p2.contents) if p2 else None)
            L.fn[free](p2)
            L.fn[free](p0)
            st.sample("copy", dict(fn=fn, args=[a.decode() if isinstance(a, bytes) else a for a in args]), cap=1)
        # free in all orders
        for perm in itertools.permutations(range(4)):
            objs = [L.call("GetCompoundDataNISTByIndex", 10)[0], L.call("GetRadioNuclideDataByIndex", 1)[0], L.call("Crystal_GetCrystal", b"Ge", None)[0],
                    L.call("GetCompoundDataNISTByName", b"Air, Dry (near sea level)")[0]]
            frees = ["FreeCompoundDataNIST", "FreeRadioNuclideData", "Crystal_Free", "FreeCompoundDataNIST"]
            ok = all(bool(o) for o in objs)
            for k in perm:
                if objs[k]:
                    L.fn[frees[k]](objs[k])
            fact(st, ok, "copy:free-orders", dict(order=list(perm)), "all fetched", None)
        return st
    return st


def replay(ctx, rec):
    b = ctx.build("plain", "A")
    sig = rec["signature"]
    part = {"symbol": "elements", "nist": "nist", "nuclide": "nuclides", "crystal": "crystals", "copy": "copies"}.get(sig.split(":")[0], "elements")
    st = common.pmap(work, [(b["lib"], b["src"], part)])
    bad = [v for v in st.violations if v["sig"] == sig]
    for v in bad[:3]:
        print("replay:", v)
    return not bad
