"""C01 - scalar lookups return exactly the shipped table value, or an error.
Exhaustive enumeration accessor x Z in [-3,125] x macro in and around the legal range, both data configurations,
against independently parsed data files and header #defines."""
import common, xrl
from common import Stats

INT_MIN, INT_MAX = -2**31, 2**31 - 1

# Coster-Kronig record names use their own convention (documented in DESIGN.md C01)
CK_NAME = {"FL12_TRANS": "F12", "FL13_TRANS": "F13", "FLP13_TRANS": "FP13", "FL23_TRANS": "F23"}
for _a in "12 13 14 15 23 24 25 34 35 45".split():
    CK_NAME["FM%s_TRANS" % _a] = "FM" + _a
NONPUBLIC_RECORDS = {("coskron.dat", "F1")}

LINE_GROUPS_E = {"KA_LINE", "KB_LINE", "LA_LINE", "LB_LINE", "L1N67_LINE", "L1O45_LINE", "L1P23_LINE", "L2P23_LINE",
                 "L3O45_LINE", "L3P23_LINE", "L3P45_LINE", "KO_LINE", "KP_LINE"}
LINE_GROUPS_R = {"KA_LINE", "KB_LINE", "LA_LINE", "LB_LINE"}

ZS = list(range(-3, 126)) + [INT_MIN, INT_MAX, 1000, -1000]


CROSS = [False]      # set in the cross-accessor passes: group macros that C01 does not judge are still called


def accessors(h):
    """[(function, data file, scale, family, excluded macro names)]; family None = Z only"""
    return [
        ("AtomicWeight", "atomicweight.dat", 1.0, None, ()),
        ("ElementDensity", "densities.dat", 1.0, None, ()),
        ("EdgeEnergy", "edges.dat", 1000.0, "shell", ()),
        ("AtomicLevelWidth", "atomiclevelswidth.dat", 1000.0, "shell", ()),
        ("FluorYield", "fluor_yield.dat", 1.0, "shell", ()),
        ("JumpFactor", "jump.dat", 1.0, "shell", ()),
        ("CosKronTransProb", "coskron.dat", 1.0, "trans", ()),
        ("LineEnergy", "fluor_lines.dat", 1000.0, "line", LINE_GROUPS_E),
        ("RadRate", "radrate.dat", 1.0, "line", LINE_GROUPS_R),
        ("ElectronConfig", "kissel_pe.dat", 1.0, "kshell", ()),
        ("ElectronConfig_Biggs", "comptonprofiles.dat", 1.0, "biggs", ()),
    ]


def families(h):
    shells = {n: v for n, v in h.family("_SHELL", "xraylib-shells.h").items()}
    lines = {n: v for n, v in h.family("_LINE", "xraylib-lines.h").items()}
    groups = {n: v for n in ("KA_LINE", "KB_LINE", "LA_LINE", "LB_LINE") for v in [h.val[n]]}
    trans = {n: v for n, v in h.family("_TRANS", "xraylib.h").items()}
    return dict(shell=shells, kshell=shells, line=dict(lines, **groups), trans=trans)


def data_name(fam, macro_name):
    if fam in ("shell", "kshell"):
        return macro_name[:-len("_SHELL")]
    if fam == "line":
        return macro_name[:-len("_LINE")]
    if fam == "trans":
        return CK_NAME.get(macro_name)
    return None


def macro_range(vals):
    lo, hi = min(vals), max(vals)
    return list(range(lo - 3, hi + 4)) + [INT_MIN, INT_MAX, lo - 1000, hi + 1000]


def load_records(df, fname, scale, h):
    if fname in ("atomicweight.dat", "densities.dat"):
        return {(z, None): v for z, v in df.scalar2(fname).items()}
    if fname == "kissel_pe.dat":
        k = df.kissel(h.val.get("SHELLNUM_K", 31))
        inv = {v: n[:-6] for n, v in h.family("_SHELL", "xraylib-shells.h").items()}
        return {(z, inv[s]): c for z, d in k.items() for s, c in enumerate(d["config"]) if s in inv}
    return df.named3(fname, scale)


class Exp(float):
    """expected value after the build's %.10E print; .raw = the number as written in the data file.  Either is 'exactly the shipped value':
    a build that keeps more digits must not be reported."""
    raw = None


def expected_value(recs, z, dname):
    v = recs.get((z, dname))
    if v is None or not (v > 0):
        return None
    e = Exp(xrl.round11(v))
    e.raw = v
    return e


def work(item):
    config, lib_path, src, acc_idx = item
    if isinstance(acc_idx, tuple):          # ("cross", [accessor indices]): every accessor in this one process, one after the other
        st = Stats()
        CROSS[0] = True
        for i in acc_idx[1]:
            st.merge(work((config, lib_path, src, i)))
        st.cls("cross_accessor_passes")
        return st
    st = Stats()
    h = xrl.Headers(src)
    df = xrl.DataFiles(src)
    L = xrl.Lib(lib_path, h)
    fams = families(h)
    fn, fname, scale, fam, excl = accessors(h)[acc_idx]
    recs = load_records(df, fname, scale, h)
    zmax = h.val["ZMAX"]
    for n, text in (df.malformed.get(fname, [])[:5] if fam != "biggs" and fname != "kissel_pe.dat" else []):
        # a line of a shipped record file that is not a record: the library's reader stops there and silently drops everything after it
        st.violation("malformed-record:" + fname, dict(config=config, file=fname, line=n, text=text), "every line of the shipped file is a record", text)
    if fam == "biggs":
        return work_biggs(st, config, L, h, df, zmax)
    if fam is None:
        for z in ZS:
            exp = expected_value(recs, z, None) if 1 <= z <= zmax else None
            got, err = L.call(fn, z)
            judge(st, config, fn, (z,), exp, got, err)
        covered = {k for k in recs}
        return st
    byval = {}
    for n, v in fams[fam].items():
        byval.setdefault(v, []).append(n)
    for v, ns in byval.items():
        if len(ns) > 1:
            st.violation("macro-collision:%s" % fam, dict(config=config, family=fam, value=v, names=sorted(ns)),
                         expected="distinct values", got="shared value")
    # record names that no public macro addresses
    names_pub = {data_name(fam, n) for n in fams[fam]}
    for (z, dn), v in recs.items():
        if dn not in names_pub and (fname, dn) not in NONPUBLIC_RECORDS and v > 0:
            if fam in ("shell",) and dn in ("Q1", "Q2", "Q3"):
                st.cls("records_for_shells_beyond_accessor_range")
                continue
            st.violation("unaddressable-record:%s:%s" % (fname, dn), dict(config=config, file=fname, name=dn),
                         expected="a public macro for every record name", got="none")
    for m in macro_range(list(fams[fam].values())):
        ns = byval.get(m, [])
        name = ns[0] if ns else None
        if name in excl:
            if CROSS[0]:
                for z in ZS:        # decided elsewhere (C10), but asked here too: what it leaves behind must not disturb the other accessors
                    v, e = L.call(fn, z, m)
            continue
        dn = data_name(fam, name) if name else None
        for z in ZS:
            exp = expected_value(recs, z, dn) if (dn is not None and 1 <= z <= zmax) else None
            got, err = L.call(fn, z, m)
            judge(st, config, fn, (z, m), exp, got, err, name)
    return st


def bind_biggs(L):
    """exported (XRL_EXTERN in comptonprofiles.c) but not declared in the public headers"""
    import ctypes
    try:
        f = L.dll.ElectronConfig_Biggs
    except AttributeError:
        return False
    f.restype = ctypes.c_double
    f.argtypes = [ctypes.c_int, ctypes.c_int, ctypes.c_void_p]
    L.fn["ElectronConfig_Biggs"] = f
    return True


def work_biggs(st, config, L, h, df, zmax):
    if not bind_biggs(L):
        st.cls("biggs_accessor_absent")
        return st
    cp = df.compton_profiles()
    for z in ZS:
        occ = cp.get(z, {}).get("occ", []) if 1 <= z <= zmax else []
        for s in macro_range([0, h.val.get("SHELLNUM_C", 29) - 1]):
            exp = None
            if 0 <= s < len(occ) and occ[s] > 0:
                exp = Exp(xrl.round11(occ[s]))
                exp.raw = occ[s]
            got, err = L.call("ElectronConfig_Biggs", z, s)
            judge(st, config, "ElectronConfig_Biggs", (z, s), exp, got, err, "shell%d" % s if 0 <= s < 40 else None)
    return st


def judge(st, config, fn, args, exp, got, err, name=None):
    st.ev()
    case = dict(config=config, fn=fn, args=list(args), macro=name)
    if exp is not None:
        st.nt()
        st.cls("value_cells")
        st.sample("value:" + fn, dict(case, expected=float(exp)), cap=1)
        if err is not None or (got != exp and got != getattr(exp, "raw", exp)):
            st.violation("value:%s:%s" % (fn, name or "Z"), case, expected=float(exp), got=dict(value=got, error=err))
    else:
        st.cls("error_cells")
        st.sample("error:" + fn, case, cap=1)
        if err is None or got != 0.0:
            st.violation("noerror:%s:%s" % (fn, name or "Z"), case, expected="error and 0.0", got=dict(value=got, error=err))


def prepare(ctx):
    import concurrent.futures as cf
    with cf.ThreadPoolExecutor(2) as ex:
        fa = ex.submit(ctx.build, "plain", "A")
        fb = ex.submit(ctx.build, "plain", "B")
        return {"A": fa.result(), "B": fb.result()}


def run(ctx):
    ctx.rule = ("exhaustive: 10 scalar accessors x Z in [-3,125]+extremes x every macro value in [lo-3,hi+3]+extremes of its family "
                "(values lexed from the headers), configurations A (as shipped) and B (Kissel regenerated); oracle = own parse of "
                "data/*.dat, unit-converted, rounded to 11 digits, compared with ==; plus two passes with all accessors in one process (declaration order, reverse order). non-trivial = cell with a positive record "
                "(distinct by construction); error cells counted separately")
    ctx.exhaustive = True
    builds = prepare(ctx)
    h = xrl.Headers(builds["A"]["src"])
    items = [(c, builds[c]["lib"], builds[c]["src"], i) for c in ("A", "B") for i in range(len(accessors(h)))]
    # the same enumeration once more with all accessors in ONE process, in declaration order and in reverse order: a lookup that rewrites a table
    # another accessor reads (say, a line-energy query normalising the rate table in place) only shows across accessors
    n_acc = len(accessors(h))
    items += [("A", builds["A"]["lib"], builds["A"]["src"], ("cross", list(range(n_acc)))), ("A", builds["A"]["lib"], builds["A"]["src"], ("cross", list(range(n_acc))[::-1]))]
    ctx.stats.merge(common.pmap(work, items))
    ctx.assumptions = ["glibc strtod/printf round-trip identical in generator and oracle",
                       "group/doublet line macros are decided by C10, Auger tables by C11",
                       "this tree has no public Biggs-occupancy accessor; occupancies are exercised through C02 (partial profiles)"]


def replay(ctx, rec):
    case = rec["case"]
    cfg = case.get("config", "A")
    b = ctx.build("plain", cfg)
    h = xrl.Headers(b["src"])
    df = xrl.DataFiles(b["src"])
    L = xrl.Lib(b["lib"], h)
    if "fn" not in case:
        return False
    fn = case["fn"]
    if fn == "ElectronConfig_Biggs":
        st = work((cfg, b["lib"], b["src"], [a[0] for a in accessors(h)].index(fn)))
        bad = [v for v in st.violations if v["case"]["args"] == case["args"]]
        print("replay:", bad[:1])
        return not bad
    acc = [a for a in accessors(h) if a[0] == fn][0]
    recs = load_records(df, acc[1], acc[2], h)
    fams = families(h)
    args = case["args"]
    z = args[0]
    dn = None
    if acc[3] is not None:
        names = [n for n, v in fams[acc[3]].items() if v == args[1]]
        dn = data_name(acc[3], names[0]) if names else None
        exp = expected_value(recs, z, dn) if dn is not None and 1 <= z <= h.val["ZMAX"] else None
    else:
        exp = expected_value(recs, z, None) if 1 <= z <= h.val["ZMAX"] else None
    got, err = L.call(fn, *args)
    print("replay %s%s expected=%r got=%r err=%r" % (fn, tuple(args), exp, got, err))
    if exp is None:
        return err is not None and got == 0.0
    return err is None and (got == exp or got == getattr(exp, "raw", exp))
