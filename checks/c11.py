"""C11 - Auger yields and rates are the documented derivation of the raw tables.
Exhaustive Z x shell x Auger macro; oracle from independently parsed auger_rates.dat / fluor_yield.dat / coskron.dat,
Coster-Kronig membership decided by parsing the transition *names* of xraylib-auger.h."""
import re
import common, xrl
from common import Stats

INT_MIN, INT_MAX = -2**31, 2**31 - 1
TOL = 1e-10
CK_FROM = {"FL12_TRANS": ("L1", "F12"), "FL13_TRANS": ("L1", "F13"), "FLP13_TRANS": ("L1", "FP13"), "FL23_TRANS": ("L2", "F23")}
for _a in "12 13 14 15 23 24 25 34 35 45".split():
    CK_FROM["FM%s_TRANS" % _a] = ("M" + _a[0], "FM" + _a)


def parse_auger_name(macro):
    """'K_L1M3_AUGER' -> ('K', 'L1', 'M3')"""
    m = re.fullmatch(r"([KLMNOPQ][1-7]?)_([KLMNOPQ][1-7]?)([KLMNOPQ][1-7]?)_AUGER", macro)
    return m.groups() if m else None


def is_ck(parts):
    s, x, y = parts
    return x[0] == s[0] or y[0] == s[0]


def work(item):
    lib_path, src, zchunk = item
    st = Stats()
    h = xrl.Headers(src)
    df = xrl.DataFiles(src)
    L = xrl.Lib(lib_path, h)
    fy = df.named3("fluor_yield.dat")
    ck = df.named3("coskron.dat")
    ar = df.named3("auger_rates.dat")
    shells = h.family("_SHELL", "xraylib-shells.h")
    shell_by_val = {v: n[:-6] for n, v in shells.items()}
    aug = h.family("_AUGER", "xraylib-auger.h")
    aug_by_val = {}
    for n, v in aug.items():
        aug_by_val.setdefault(v, []).append(n)
    zmax = h.val["ZMAX"]
    amin, amax = min(aug.values()), max(aug.values())
    first = -3 in zchunk
    if first:
        for v, ns in aug_by_val.items():
            if len(ns) > 1:
                st.violation("macro-collision:auger", dict(value=v, names=ns))
        for n in aug:
            if parse_auger_name(n) is None:
                st.violation("unparsable-auger-macro", dict(name=n))
        names = {"%s-%s%s" % parse_auger_name(n) for n in aug if parse_auger_name(n)}
        for (z, dn) in ar:
            if not dn.endswith("-TOTAL") and dn not in names:
                st.violation("unaddressable-record:auger_rates.dat", dict(name=dn))
                break
    # per-shell transition lists from the names
    per_shell = {}
    for n in aug:
        p = parse_auger_name(n)
        if p:
            per_shell.setdefault(p[0], []).append((n, p))
    for z in zchunk:
        zin = 1 <= z <= zmax
        # ---- yields
        for s in list(range(-2, 12)) + [INT_MIN, INT_MAX, 31]:
            exp = None
            sn = shell_by_val.get(s)
            if zin and sn in ("K", "L1", "L2", "L3", "M1", "M2", "M3", "M4", "M5"):
                f = fy.get((z, sn), 0.0)
                if f > 0:
                    v = 1.0 - f
                    for mname, (frm, dn) in CK_FROM.items():
                        if frm == sn:
                            c = ck.get((z, dn), 0.0)
                            if c > 0:
                                v -= c
                    if v > 0:
                        exp = v
            got, err = L.call("AugerYield", z, s)
            judge(st, "AugerYield", (z, s), sn, exp, got, err)
            if exp is not None:
                # the three decay channels partition unity, each within [0,1]
                if not (0.0 <= got <= 1.0):
                    st.violation("range:AugerYield", dict(fn="AugerYield", args=[z, s]), "within [0,1]", got)
        # ---- rates
        denom = {}
        for sn, lst in per_shell.items():
            tot = ar.get((z, sn + "-TOTAL"), 0.0)
            d = tot
            for n, p in lst:
                if is_ck(p):
                    d -= ar.get((z, "%s-%s%s" % p), 0.0)
            denom[sn] = d
        for a in list(range(amin - 3, amax + 4)) + [INT_MIN, INT_MAX]:
            ns = aug_by_val.get(a, [])
            exp = None
            name = ns[0] if ns else None
            if name and zin and z < zmax:  # pr_data fills Z = 1..ZMAX-1; no raw data exists for ZMAX anyway
                p = parse_auger_name(name)
                if p and not is_ck(p):
                    raw = ar.get((z, "%s-%s%s" % p), 0.0)
                    d = denom[p[0]]
                    if raw > 0 and d >= 1e-8:
                        exp = raw / d
            elif name and z == zmax:
                p = parse_auger_name(name)
                if p and ar.get((z, "%s-%s%s" % p), 0.0) > 0:
                    st.violation("data-for-ZMAX-not-derived", dict(z=z, name=name))
            got, err = L.call("AugerRate", z, a)
            judge(st, "AugerRate", (z, a), name, exp, got, err)
    return st


def judge(st, fn, args, name, exp, got, err):
    st.ev()
    case = dict(fn=fn, args=list(args), macro=name)
    if exp is not None:
        st.nt()
        st.cls("value_cells:" + fn)
        st.sample("value:" + fn, dict(case, expected=exp), cap=2)
        if err is not None or xrl.relerr(got, exp) > TOL:
            st.violation("value:%s:%s" % (fn, name), case, expected=exp, got=dict(value=got, error=err))
    else:
        st.cls("error_cells:" + fn)
        st.sample("error:" + fn, case, cap=1)
        if err is None or got != 0.0:
            st.violation("noerror:%s:%s" % (fn, name), case, expected="error and 0.0", got=dict(value=got, error=err))


def run(ctx):
    ctx.rule = ("exhaustive: Z in [-3,124]+extremes x shells [-2,11]+extremes (AugerYield) x Auger macros [lo-3,hi+3]+extremes (AugerRate); "
                "oracle = 1-omega-sum(CK) and raw/(TOTAL - sum raw CK-type) from own parse of the data files, CK-type decided from the "
                "macro name, tolerance 1e-10 relative. non-trivial = cell with a positive expected value (distinct by construction)")
    ctx.exhaustive = True
    b = ctx.build("plain", "A")
    zs = list(range(-3, 125)) + [INT_MIN, INT_MAX]
    chunks = [zs[i::16] for i in range(16)]
    ctx.stats.merge(common.pmap(work, [(b["lib"], b["src"], c) for c in chunks]))
    ctx.assumptions = ["the Auger tables do not depend on the Kissel configuration (configuration A only)",
                       "raw/derived values pass through one %.10E print at build time (hence 1e-10)"]


def replay(ctx, rec):
    case = rec["case"]
    b = ctx.build("plain", "A")
    st = work((b["lib"], b["src"], [case["args"][0]]))
    bad = [v for v in st.violations if v["case"].get("args") == case["args"] and v["case"].get("fn") == case["fn"]]
    for v in bad:
        print("replay:", v)
    return not bad
