"""C09 - jump-ratio XRF cross sections = photo cross section x jump share x yield x rate.
All Z x {K,L1,L2,L3,+invalid} x every line macro x energies bracketing every K/L edge; reference share recomputed from the public
EdgeEnergy/JumpFactor/CosKronTransProb/FluorYield/RadRate/CS_Photo values following Brunetti et al. 2004."""
import math, random
import common, xrl
from common import Stats, mix

TOL = 1e-13
LB_MEMBERS = {"L2": ["L2M4", "L2M3"], "L3": ["L3N5", "L3O4", "L3O5", "L3O45", "L3N1", "L3O1", "L3N6", "L3N7", "L3N4"],
              "L1": ["L1M3", "L1M2", "L1M5", "L1M4"]}


class Env:
    def __init__(self, lib_path, src):
        self.h = xrl.Headers(src)
        self.L = xrl.Lib(lib_path, self.h)
        v = self.h.val
        self.line = {n[:-5]: x for n, x in self.h.family("_LINE", "xraylib-lines.h").items()}
        for g in ("KA", "KB", "LA", "LB"):
            self.line[g] = v[g + "_LINE"]
        self.name_of_line = {}
        for n, x in self.line.items():
            self.name_of_line.setdefault(x, n)
        self.shell = {n[:-6]: x for n, x in self.h.family("_SHELL", "xraylib-shells.h").items()}
        self.ck = {n[:-6]: x for n, x in self.h.family("_TRANS", "xraylib.h").items()}
        self.avog = v["AVOGNUM"]

    def q(self, fn, *a):
        r = self.L.val(fn, *a)
        return r


def share(env, z, sh, E):
    """-> ('err', reason) | ('ok', share*yield) ; share may be exactly 0.0"""
    q = env.q
    S = env.shell
    edge = {s: q("EdgeEnergy", z, S[s]) for s in ("K", "L1", "L2", "L3")}
    incl = getattr(env, "incl", False)      # which side an energy exactly equal to an edge belongs to is not stated: see exact_edges()
    above = {s: (edge[s] is not None and (E > edge[s] or (incl and E == edge[s]))) for s in edge}
    f = 1.0
    if above["K"]:
        rK = q("JumpFactor", z, S["K"])
        if rK is None:
            return ("err", "jumpK")
        if sh == "K":
            w = q("FluorYield", z, S["K"])
            if w is None:
                return ("err", "yield")
            return ("ok", ((rK - 1) / rK) * w)
        f /= rK
    elif sh == "K":
        return ("err", "below")
    r = {s: q("JumpFactor", z, S[s]) for s in ("L1", "L2", "L3")}
    if sh == "L1":
        if not above["L1"]:
            return ("err", "below")
        if r["L1"] is None:
            return ("err", "jump")
        w = q("FluorYield", z, S["L1"])
        if w is None:
            return ("err", "yield")
        return ("ok", f * ((r["L1"] - 1) / r["L1"]) * w)
    t1 = t2 = t3 = 0.0
    if above["L1"]:
        need = ["L1", "L2"] + (["L3"] if sh == "L3" else [])
        if any(r[s] is None for s in need):
            return ("err", "jump")
        t1 = (r["L1"] - 1) / r["L1"]
        t2 = (r["L2"] - 1) / (r["L2"] * r["L1"])
        if sh == "L3":
            t3 = (r["L3"] - 1) / (r["L3"] * r["L2"] * r["L1"])
    elif above["L2"]:
        need = ["L2"] + (["L3"] if sh == "L3" else [])
        if any(r[s] is None for s in need):
            return ("err", "jump")
        t2 = (r["L2"] - 1) / r["L2"]
        if sh == "L3":
            t3 = (r["L3"] - 1) / (r["L3"] * r["L2"])
    elif above["L3"] and sh == "L3":
        if r["L3"] is None:
            return ("err", "jump")
        t3 = (r["L3"] - 1) / r["L3"]
    else:
        return ("err", "below")
    f12 = q("CosKronTransProb", z, env.ck["FL12"]) or 0.0
    if sh == "L2":
        if t1 > 0 and f12 == 0.0:
            return ("err", "ck")
        w = q("FluorYield", z, S["L2"])
        if w is None:
            return ("err", "yield")
        return ("ok", f * (t2 + t1 * f12) * w)
    f23 = q("CosKronTransProb", z, env.ck["FL23"]) or 0.0
    f13 = q("CosKronTransProb", z, env.ck["FL13"]) or 0.0
    fp13 = q("CosKronTransProb", z, env.ck["FLP13"]) or 0.0
    if t2 > 0 and f23 == 0.0:
        return ("err", "ck")
    if t1 > 0 and (f13 + fp13 == 0.0 or f12 == 0.0 or f23 == 0.0):
        return ("err", "ck")
    w = q("FluorYield", z, S["L3"])
    if w is None:
        return ("err", "yield")
    return ("ok", f * (t3 + t2 * f23 + t1 * (f13 + fp13 + f12 * f23)) * w)


def branch_id(env, z, E):
    q = env.q
    S = env.shell
    b = ""
    for s in ("K", "L1", "L2", "L3"):
        e = q("EdgeEnergy", z, S[s])
        b += "1" if (e is not None and E > e) else "0"
    return b


def expect_shell(env, z, shname, E, cache):
    """expected CS_FluorShell: None = error, else (value, zero_share)"""
    key = (z, shname, E, getattr(env, "incl", False))
    if key in cache:
        return cache[key]
    res = None
    if 1 <= z <= env.h.val["ZMAX"] and E > 0 and shname in ("K", "L1", "L2", "L3"):
        st, v = share(env, z, shname, E)
        if st == "ok":
            if v == 0.0:
                res = (0.0, True)   # zero share (tabulated jump ratio exactly 1): 0.0 with or without an error is accepted
            else:
                cs = env.q("CS_Photo", z, E)
                if cs is not None:
                    res = (cs * v, False)
    cache[key] = res
    return res


def line_shell(name):
    if name in ("KA", "KB") or name[0] == "K":
        return "K"
    if name == "LA":
        return "L3"
    if name[:2] in ("L1", "L2", "L3"):
        return name[:2]
    return None


def expect_line(env, z, name, E, cache):
    if name is None or not (1 <= z <= env.h.val["ZMAX"]):
        return None
    if name == "LB":
        tot = 0.0
        for sh, mem in LB_MEMBERS.items():
            e = expect_shell(env, z, sh, E, cache)
            if e is None:
                continue
            rsum = 0.0
            for m in mem:
                rsum += env.q("RadRate", z, env.line[m]) or 0.0
            # shell value already contains CS_Photo; (Jump*sum rates) summed over shells then times CS_Photo in the library
            tot += e[0] * rsum
        if tot == 0.0:
            return None
        return (tot, False, True)
    sh = line_shell(name)
    if sh is None:
        return None
    rr = env.q("RadRate", z, env.line[name])
    if rr is None:
        return None
    e = expect_shell(env, z, sh, E, cache)
    if e is None:
        return None
    return (rr * e[0], e[1], False)


def judge(st, env, fn, z, macro, E, exp, label, tol=TOL):
    st.ev()
    got, err = env.L.call(fn, z, macro, E)
    case = dict(fn=fn, Z=z, macro=macro, name=label, E=E)
    if exp is None:
        st.cls("error_expected")
        if err is None or got != 0.0:
            st.violation("noerror:%s:%s" % (fn, kindof(label)), case, "error and 0.0", dict(value=got, error=err))
        return
    val, zero = exp[0], exp[1]
    if zero or val == 0.0:
        st.cls("zero_share")
        if not ((err is None and got == 0.0) or (err is not None and got == 0.0)):
            st.violation("zero-share:%s" % fn, case, "0.0 (with or without error)", dict(value=got, error=err))
        elif len(exp) > 2 and not exp[2] and label not in ("K", "L1", "L2", "L3"):
            # a line is its shell's value times a rate: with the rate available, the line call fails exactly when the shell call at that energy does
            sh = line_shell(label)
            gs, es = env.L.call(fn.replace("Line", "Shell"), z, env.shell[sh], E)
            if (es is None) != (err is None):
                st.violation("zero-share-error-state:%s" % fn, case, dict(shell_call=dict(value=gs, error=es), note="the line's rate is available"),
                             dict(value=got, error=err))
        return
    st.cls("value")
    if err is not None:
        st.violation("spurious-error:%s:%s" % (fn, kindof(label)), case, val, dict(value=got, error=err))
        return
    if xrl.relerr(got, val) > tol:
        st.violation("value:%s:%s" % (fn, kindof(label)), case, val, got)
        return
    b = branch_id(env, z, E)
    if b not in ("0000", "1111"):
        st.nt_key(fn, z, macro, b)
        st.cls("branch:" + b)
    st.sample("%s:%s" % (fn, kindof(label)), dict(case, expected=val, got=got), cap=1)


def fits(exp, got, err, tol=TOL):
    if exp is None:
        return err is not None and got == 0.0
    if exp[1] or exp[0] == 0.0:
        return got == 0.0
    return err is None and xrl.relerr(got, exp[0]) <= tol


def exact_edges(st, env, z, cache):
    """energies bit-equal to an edge of the element.  The statement speaks of 'edges lying below the energy' and does not say to which side the
    edge itself belongs, so both readings are accepted - but one reading per energy: the four sub-shell answers (and a line of each) at that
    energy are fractions of one absorption event and have to be derived from the same set of excited edges."""
    S = env.shell
    for s0 in ("K", "L1", "L2", "L3"):
        E = env.q("EdgeEnergy", z, S[s0])
        if not E:
            continue
        got = {}
        for sh in ("K", "L1", "L2", "L3"):
            got[sh] = env.L.call("CS_FluorShell", z, S[sh], E)
            st.ev()
        readings = {}
        for incl in (False, True):
            env.incl = incl
            readings[incl] = {sh: expect_shell(env, z, sh, E, cache) for sh in got}
        env.incl = False
        ok = [incl for incl in readings if all(fits(readings[incl][sh], *got[sh]) for sh in got)]
        st.cls("exact_edge")
        if not ok:
            st.violation("exact-edge:CS_FluorShell", dict(Z=z, E=E, edge=s0),
                         dict(edge_counts_as_below={sh: readings[False][sh] and readings[False][sh][0] for sh in got},
                              edge_counts_as_excited={sh: readings[True][sh] and readings[True][sh][0] for sh in got}),
                         {sh: dict(value=got[sh][0], error=got[sh][1]) for sh in got})
        else:
            st.nt_key("exact-edge", z, s0)


def kindof(label):
    if label is None:
        return "unknown-macro"
    if label in ("KA", "KB", "LA", "LB"):
        return label
    if label in ("K", "L1", "L2", "L3"):
        return "shell-" + label
    sh = line_shell(label)
    return "line-" + (sh or "other")


def energies(env, z, rng, nrand):
    q = env.q
    es = set()
    edges = [q("EdgeEnergy", z, env.shell[s]) for s in ("K", "L1", "L2", "L3")] if 1 <= z <= env.h.val["ZMAX"] else []
    edges = [e for e in edges if e]
    for e in edges:
        es.update([e * (1 - 1e-9), e * (1 + 1e-9), e * (1 + 1e-3), e + 0.1])
    se = sorted(edges)
    for a, b in zip(se, se[1:]):
        es.add(0.5 * (a + b))
        es.add(a + rng.random() * (b - a))
    if se:
        es.update([se[0] * 0.5, se[-1] * 2.0, se[-1] + 1.0])
    es.update([1.0, 1.0 * (1 - 1e-9), 10.0, 100.0, 999.0, 1000.0, 1001.0, 0.0, -1.0, 1e-300, 1e300])
    lo, hi = math.log(0.3), math.log(300.0)
    for _ in range(nrand):
        es.add(math.exp(lo + rng.random() * (hi - lo)))
    return sorted(es)


def work(item):
    lib_path, src, zs, seed, quick = item
    env = Env(lib_path, src)
    st = Stats()
    lines = env.line
    lmin, lmax = min(lines.values()), max(lines.values())
    macros = list(range(lmin - 3, lmax + 4)) + [-2**31, 2**31 - 1]
    for z in zs:
        rng = random.Random(mix(seed, "c09", z))
        cache = {}
        Es = energies(env, z, rng, 6 if quick else 60)
        aw = env.q("AtomicWeight", z) if 1 <= z <= env.h.val["ZMAX"] else None
        for E in Es:
            for sv in (-1, 0, 1, 2, 3, 4, 8, 31, 2**31 - 1):
                sname = {0: "K", 1: "L1", 2: "L2", 3: "L3"}.get(sv)
                e = expect_shell(env, z, sname, E, cache) if sname else None
                judge(st, env, "CS_FluorShell", z, sv, E, e, sname)
                eb = None
                if e is not None and aw is not None:
                    eb = (e[0] * aw / env.avog, e[1])
                judge(st, env, "CSb_FluorShell", z, sv, E, eb, sname)
        if 1 <= z <= env.h.val["ZMAX"]:
            exact_edges(st, env, z, cache)
        # lines: all macros on a sub-sample of energies (all energies in the thorough tier)
        sel = Es if not quick else [E for i, E in enumerate(Es) if E > 0 and (i % 3 == z % 3)]
        for E in sel:
            for m in macros:
                name = env.name_of_line.get(m)
                e = expect_line(env, z, name, E, cache)
                tol = 1e-12 if name == "LB" else TOL
                judge(st, env, "CS_FluorLine", z, m, E, e, name, tol)
                eb = None
                if e is not None and aw is not None:
                    eb = (e[0] * aw / env.avog,) + tuple(e[1:])
                judge(st, env, "CSb_FluorLine", z, m, E, eb, name, tol)
    # the same energy for one element after the other (shuffled), each time right after a call of that element which fails inside the photo table
    # (far above the tabulated range): a remembered (element, energy) pair of an earlier call must not leak into the next
    rngp = random.Random(mix(seed, "c09-shared", tuple(zs)))
    order = [z for z in zs if 1 <= z <= env.h.val["ZMAX"]]
    for E in (2.5, 12.0, 40.0, 130.0, 10.0 ** rngp.uniform(0, 2.3)):
        rngp.shuffle(order)
        cache = {}
        for z in order:
            env.L.call("CS_FluorLine", z, lines["KL3"], 5000.0 if rngp.random() < 0.7 else 1e-3)
            for sv, sname in ((0, "K"), (1, "L1"), (2, "L2"), (3, "L3")):
                judge(st, env, "CS_FluorShell", z, sv, E, expect_shell(env, z, sname, E, cache), sname)
            for nm in ("KL3", "L3M5", "L2M4", "L1M3"):
                if nm in lines:
                    judge(st, env, "CS_FluorLine", z, lines[nm], E, expect_line(env, z, nm, E, cache), nm)
            st.cls("shared_energy_pass")
    return st


def run(ctx):
    ctx.rule = ("Z in [-1,122] x shells {-1,K,L1,L2,L3,M1,M5,31,INT_MAX} x every line macro in [lo-3,hi+3] (all energies for shells; a third "
                "of them per Z for lines in the quick tier) x energies: each K/L edge x(1-+1e-9), (1+1e-3), +0.1, midpoints and seeded points "
                "between consecutive edges, photo-table ends, 0, negative, 1e+-300, seeded log-uniform draws; CS and CSb twins. "
                "non-trivial = successful value with E between two edges of the element (branch-selecting), distinct by (function, Z, macro, branch)")
    b = ctx.build("plain", "A")
    zs = list(range(-1, 123))
    items = [(b["lib"], b["src"], zs[i::32], ctx.seed, ctx.quick) for i in range(32)]
    ctx.stats.merge(common.pmap(work, items))
    ctx.assumptions = ["primitives (EdgeEnergy, JumpFactor, CosKronTransProb, FluorYield, RadRate, CS_Photo) are decided by C01/C02",
                       "when the reference share is exactly 0 (tabulated jump ratio 1) both '0.0 without error' and 'error' are accepted",
                       "at energies exactly equal to an edge either side is accepted for the edge (the property does not say which side it belongs to), but the same side in all four sub-shell answers at that energy"]


def replay(ctx, rec):
    c = rec["case"]
    b = ctx.build("plain", "A")
    env = Env(b["lib"], b["src"])
    st = Stats()
    cache = {}
    if "macro" not in c:       # exact-edge finding: the four sub-shell answers at the energy of one edge
        exact_edges(st, env, c["Z"], cache)
        for v in st.violations:
            print("replay:", v)
        return not st.violations
    z, m, E, fn = c["Z"], c["macro"], c["E"], c["fn"]
    aw = env.q("AtomicWeight", z) if 1 <= z <= env.h.val["ZMAX"] else None
    if "Shell" in fn:
        sname = {0: "K", 1: "L1", 2: "L2", 3: "L3"}.get(m)
        e = expect_shell(env, z, sname, E, cache) if sname else None
        label = sname
    else:
        label = env.name_of_line.get(m)
        e = expect_line(env, z, label, E, cache)
    if fn.startswith("CSb") and e is not None:
        e = ((e[0] * aw / env.avog,) + tuple(e[1:])) if aw else None
    judge(st, env, fn, z, m, E, e, label, 1e-12 if label == "LB" else TOL)
    for v in st.violations:
        print("replay:", v)
    return not st.violations
