"""C06 - compound quantities follow the mass-fraction mixture rule.
Hypothesis-generated formulas over the 103 weighable elements (nesting, fractional subscripts) + all NIST names + invalid names,
x energies x angles x densities, for every _CP function and the refractive-index entry points, configurations A and B."""
import ctypes, math, random
from hypothesis import strategies as hs
import common, xrl, hyp, formulas
from common import Stats, mix

PI = math.pi
TOL = 1e-13
TOL_TREE = 1e-11      # reference composition computed outside the library: fractions rounded once more


class Env:
    def __init__(self, lib_path, src, config):
        self.h = h = xrl.Headers(src)
        self.L = xrl.Lib(lib_path, h)
        self.config = config
        self.cp = {}
        for n, p in h.protos.items():
            if n.endswith("_CP"):
                self.cp[n] = len(p["args"]) - 2  # number of double arguments
        L = self.L
        n = ctypes.c_int(0)
        lst = L.fn["GetCompoundDataNISTList"](ctypes.byref(n), None)
        self.nist = [lst[i].decode() for i in range(n.value)]
        for i in range(n.value):
            L.fn["xrlFree"](ctypes.cast(lst[i], ctypes.c_void_p)) if False else None
        # header-derived constants of the refractive index
        v = h.val
        self.K_ref = (v["R_E"] * 100.0) * (v["KEV2ANGST"] * 1e-8) ** 2 * (v["AVOGNUM"] * 1e24) / (2 * PI)
        self.C_ref = v["KEV2ANGST"] * 1e-8 / (4 * PI)

    def composition(self, name):
        """(elements, mass fractions, nist density or None) from the library's own resolution order; None = unknown"""
        L = self.L
        self.strict = False
        if name is not None and name not in self.nist:
            # the reference composition of a formula does not come from the library's parser: the strict recogniser written from the documented
            # grammar (checks/c07.py) decides.  accept -> algebraic expansion (exact fractions) and atomic weights; reject -> unknown name;
            # strings the documentation does not speak about -> whatever the parser returns (consistency only)
            import c07
            if not hasattr(self, "aw"):
                self.aw = {z: w for z in range(1, 120) for w in [L.val("AtomicWeight", z)] if w}
            verdict, cnt = c07.strict_parse(name.encode(), self.aw)
            if verdict == "reject":
                return None
            if verdict == "accept":
                self.strict = True
                M = sum(float(c) * self.aw[z] for z, c in cnt.items())
                els = sorted(cnt)
                return (els, [float(cnt[z]) * self.aw[z] / M for z in els], None)
        b = name.encode() if name is not None else None
        cd = L.fn["CompoundParser"](b, None)
        if cd:
            c = cd.contents
            r = ([c.Elements[i] for i in range(c.nElements)], [c.massFractions[i] for i in range(c.nElements)], None)
            L.fn["FreeCompoundData"](cd)
            return r
        cdn = L.fn["GetCompoundDataNISTByName"](b, None)
        if cdn:
            c = cdn.contents
            r = ([c.Elements[i] for i in range(c.nElements)], [c.massFractions[i] for i in range(c.nElements)], c.density)
            L.fn["FreeCompoundDataNIST"](cdn)
            return r
        return None


def check_cp(st, env, name, E, th, ph):
    """all _CP functions for one compound and argument tuple; returns first violation tuple or None"""
    L = env.L
    comp = env.composition(name)
    b = name.encode() if name is not None else None
    for fn, nd in sorted(env.cp.items()):
        st.ev()
        args = (E, th, ph)[:nd]
        got, err = L.call(fn, b, *args)
        base = fn[:-3]
        exp = None
        failing = None
        if comp is not None:
            els, ws, _ = comp
            s = 0.0
            ok = True
            for z, w in zip(els, ws):
                v, e = L.call(base, z, *args)
                if e is not None:
                    ok = False      # an element for which the elemental function fails makes the compound call fail
                    failing = z
                    break
                s += v * w          # an elemental value that is legitimately 0 (polarised forms at theta=pi/2, phi=0) is simply added
            if ok:
                exp = s
        case = dict(config=env.config, fn=fn, compound=name, args=list(args))
        ns = L.noslot(fn, b, *args)
        if ns != got and not (ns != ns and got != got):
            return ("noslot-differs:" + fn, case, got, ns)
        if exp is None:
            st.cls("cp_error_expected")
            if err is None or got != 0.0:
                return ("noerror:" + fn, dict(case, failing_element=failing, known=comp is not None), "error and 0.0", dict(value=got, error=err))
        elif exp == 0.0:
            st.cls("cp_zero")
            if got != 0.0:
                return ("value:" + fn, case, 0.0, dict(value=got, error=err))
        else:
            st.cls("cp_value")
            if err is not None:
                return ("spurious-error:" + fn, case, exp, dict(value=got, error=err))
            if not math.isfinite(got) or xrl.relerr(got, exp) > (TOL_TREE if env.strict else TOL):
                return ("value:" + fn, case, exp, got)
            if len(comp[0]) >= 2:
                st.nt_key(fn, name, E, th, ph)
                st.sample(fn, dict(case, expected=exp, got=got), cap=1)
    return None


def check_refr(st, env, name, E, rho):
    L = env.L
    comp = env.composition(name)
    b = name.encode() if name is not None else None
    st.ev()
    re_, ere = L.call("Refractive_Index_Re", b, E, rho)
    im_, eim = L.call("Refractive_Index_Im", b, E, rho)
    cx, ecx = L.call("Refractive_Index", b, E, rho)
    case = dict(config=env.config, compound=name, E=E, density=rho)
    nre, nim, ncx = L.noslot("Refractive_Index_Re", b, E, rho), L.noslot("Refractive_Index_Im", b, E, rho), L.noslot("Refractive_Index", b, E, rho)
    if (nre, nim, ncx.re, ncx.im) != (re_, im_, cx.re, cx.im):
        return ("noslot-differs:Refractive_Index", case, [re_, im_, cx.re, cx.im], [nre, nim, ncx.re, ncx.im])
    exp_re = exp_im = None
    S = M = None
    if comp is not None and E > 0:
        els, ws, nd = comp
        r = rho
        if r <= 0 and nd is not None:
            r = nd
        if r > 0:
            S = 0.0
            for z, w in zip(els, ws):
                fi, aw = L.val("Fi", z, E), L.val("AtomicWeight", z)
                if fi is None or aw is None:
                    S = None
                    break
                S += w * (z + fi) / aw / E / E
            M = 0.0
            for z, w in zip(els, ws):
                cs = L.val("CS_Total", z, E)
                if cs is None:
                    M = None
                    break
                M += cs * w
            if S is not None:
                exp_re = (S, r)
            if M is not None:
                exp_im = (M, r)
    # real part
    if exp_re is None:
        st.cls("refr_re_error_expected")
        if ere is None or re_ != 0.0:
            return ("noerror:Refractive_Index_Re", case, "error and 0.0", dict(value=re_, error=ere))
    else:
        st.cls("refr_re_value")
        if ere is not None:
            return ("spurious-error:Refractive_Index_Re", case, "1 - rho*K*S", dict(value=re_, error=ere))
        delta = 1.0 - re_
        dexp = exp_re[0] * exp_re[1] * env.K_ref
        if abs(delta - dexp) > 2e-5 * abs(dexp) + 4e-16:
            return ("value:Refractive_Index_Re", case, 1.0 - dexp, re_)
        if abs(dexp) > 1e-7:
            k = delta / (exp_re[0] * exp_re[1])
            st.note("K_min", min(st.notes.get("K_min", k), k))
            st.note("K_max", max(st.notes.get("K_max", k), k))
            if abs(k / env.K_ref - 1.0) > 2e-5:
                return ("constant:K", case, env.K_ref, k)
    # imaginary part
    if exp_im is None:
        st.cls("refr_im_error_expected")
        if eim is None or im_ != 0.0:
            return ("noerror:Refractive_Index_Im", case, "error and 0.0", dict(value=im_, error=eim))
    else:
        st.cls("refr_im_value")
        if eim is not None:
            return ("spurious-error:Refractive_Index_Im", case, "rho*C*mu/E", dict(value=im_, error=eim))
        c = im_ / (exp_im[0] * exp_im[1] / E)
        if abs(c / env.C_ref - 1.0) > 1e-6:
            return ("value:Refractive_Index_Im", case, exp_im[0] * exp_im[1] / E * env.C_ref, im_)
        st.note("C_min", min(st.notes.get("C_min", c), c))
        st.note("C_max", max(st.notes.get("C_max", c), c))
    # complex entry point agrees with both
    if exp_re is not None and exp_im is not None:
        if ecx is not None or xrl.relerr(cx.re, re_) > 1e-15 or xrl.relerr(cx.im, im_) > 1e-15:
            return ("agree:Refractive_Index", case, [re_, im_], dict(value=[cx.re, cx.im], error=ecx))
        if len(comp[0]) >= 2:
            st.nt_key("refr", name, E, rho)
            st.sample("Refractive_Index", dict(case, re=re_, im=im_), cap=2)
    else:
        if ecx is None or cx.re != 0.0 or cx.im != 0.0:
            return ("noerror:Refractive_Index", case, "error and {0,0}", dict(value=[cx.re, cx.im], error=ecx))
    return None


# the tables of the elemental functions have different ranges (Fi/Fii from 1 eV, cross sections 1 keV..1 MeV, CS_Energy to 20 MeV): cover them all
E_ST = hs.one_of(hs.floats(0.0, 3.0).map(lambda x: 10.0 ** x), hs.floats(-3.0, 4.4).map(lambda x: 10.0 ** x), hs.floats(-1.0, 0.5).map(lambda x: 10.0 ** x),
                 hs.sampled_from([1.0, 1000.0, 0.0, -1.0, 0.5, 2000.0, 999.999, 1.0000001, 0.109, 0.2, 0.001]))
T_ST = hs.one_of(hs.floats(-2 * PI, 2 * PI), hs.sampled_from([0.0, PI / 2, PI, 1e-8, PI / 4]))
RHO_ST = hs.one_of(hs.floats(1e-4, 25.0), hs.sampled_from([0.0, -1.0, 1.0, 2.5]))


def work(item):
    config, lib_path, src, part, n, seed = item
    env = Env(lib_path, src, config)
    st = Stats()
    sv = mix(seed, "c06", config, part) % (2**31)
    weighable = formulas.SYMBOLS[:103]
    tree_st = formulas.formula_strategy(weighable)
    env.tree_of = {}

    def name_strategy():
        nist = hs.sampled_from(env.nist)
        def reg(tree):
            s = formulas.render(tree)
            env.tree_of[s] = tree
            return s
        form = tree_st.map(reg)
        bad = hs.one_of(hs.sampled_from(["", "Xx", "h2o", "H2O ", "Water", "water, liquid", "(H2O", "H2O)", "2H", "Rf", "H0", "Uuo", "He2..3"]),
                        nist.map(lambda s: s + "x"), nist.map(lambda s: s[:-1]), form.map(lambda s: s + "("), form.map(lambda s: s.lower()),
                        # a well-formed formula with something around it that text files and user input carry along
                        hs.tuples(form, hs.sampled_from(["\n", "\r\n", "\r", "\t", " ", "\nNaCl", " # water", "\x0b", "\x0c", ";", ","])).map(lambda p: p[0] + p[1]),
                        hs.tuples(hs.sampled_from(["\n", "\t", " ", "\ufeff"]), form).map(lambda p: p[0] + p[1]),
                        nist.map(lambda s: s + "\n"), nist.map(lambda s: " " + s))
        return hs.one_of(form, form, form, nist, bad)

    if part == "nist":
        rng = random.Random(sv)
        for nm in env.nist + [None]:
            for E in (rng.uniform(1, 100), 10.0 ** rng.uniform(0, 3)):
                r = check_cp(st, env, nm, E, rng.uniform(0, PI), rng.uniform(0, PI))
                if r:
                    st.violation(*r)
                for rho in (0.0, -1.0, rng.uniform(0.1, 20)):
                    r = check_refr(st, env, nm, E, rho)
                    if r:
                        st.violation(*r)
        return st

    if part == "elements":
        # every bare element symbol (the shortest compounds there are), with good and bad densities: structured, not left to chance
        rng = random.Random(sv)
        for sym in list(weighable) + ["Rf", "Db"]:
            for E in (8.0, 10.0 ** rng.uniform(-0.9, 2.9)):
                r = check_cp(st, env, sym, E, rng.uniform(0, PI), rng.uniform(0, PI))
                if r:
                    st.violation(*r)
                for rho in (0.0, -1.0, rng.uniform(0.1, 20)):
                    r = check_refr(st, env, sym, E, rho)
                    if r:
                        st.violation(*r)
        # group shapes: several groups on one level with and without multipliers, in every order, also nested (reference composition from the tree)
        def el(sub=None):
            return ("el", rng.choice(weighable[:92]), sub)

        def grp(sub, n=2):
            return ("grp", [el(rng.choice([None, "2", "4"])) for _ in range(n)], sub)
        for _ in range(12):
            m, m2 = rng.choice(["2", "3", "0.5", "12"]), rng.choice(["3", "1.5", "7"])
            shapes = [[grp(m), grp(None)], [grp(None), grp(m)], [el("5"), grp(m), grp(None)], [grp(m), el(), grp(None), grp(m2)], [grp(m), grp(None), grp(None)],
                      [("grp", [grp(m), grp(None)], m2)], [el(), ("grp", [grp(None), grp(m), el()], None), grp(m2)], [grp(m), grp("1")], [grp(m), grp(m2), el()]]
            for tree in shapes:
                nm = formulas.render(tree)
                env.tree_of[nm] = tree
                r = check_cp(st, env, nm, 10.0 ** rng.uniform(0, 2), rng.uniform(0, PI), rng.uniform(0, PI))
                if r:
                    st.violation(*r)
                r = check_refr(st, env, nm, 10.0 ** rng.uniform(0, 2), rng.uniform(0.5, 10))
                if r:
                    st.violation(*r)
        # names that agree in a long prefix, one after the other, and trace-level subscripts
        stem = "Fe0.70Cr0.18Ni0.08Mn0.02Si0.01C0.0004P0.0002S0.0001"
        for nm in (stem + "Mo0.01", stem + "Mo0.09", stem + "Mo0.01", "Si0.9999995B0.0000005", "SiO2(Fe2O3)0.0000004", "Polyethylene", "Polyethylene Terephthalate (Mylar)", "H2O", "H2O2",
                   "CH2" * 400 + "Pb", "(" + "SiO2" * 300 + ")2U", "H" * 1023 + "O", "H" * 1024 + "O", "(CH2)400Pb", "C" * 4095 + "O2",
                   "Fe0.9470000000000001O", "Ga0.30000000000000004As0.7", "Pb12.345678901234567Te", "U0.3333333333333333O0.6666666666666666", "Fe0.94700000000000001O",
                   "H2O\n", "SiO2\r\n", "Ca5(PO4)3F\r", "C6H12O6\nNaCl", "H2O\t", " H2O", "Water, Liquid\n", "\ufeffH2O"):
            for E in (8.0, 30.0):
                r = check_cp(st, env, nm, E, 1.0, 0.5)
                if r:
                    st.violation(*r)
                r = check_refr(st, env, nm, E, 2.0)
                if r:
                    st.violation(*r)
        return st

    def prop_cp(st, name, E, th, ph):
        return check_cp(st, env, name, E, th, ph)

    def prop_refr(st, name, E, rho):
        return check_refr(st, env, name, E, rho)

    k1 = hyp.run_property(st, "cp", dict(name=name_strategy(), E=E_ST, th=T_ST, ph=T_ST), prop_cp, n, sv)
    k2 = hyp.run_property(st, "refr", dict(name=name_strategy(), E=E_ST, rho=RHO_ST), prop_refr, n, sv + 1)
    st.cls("examples_cp", k1)
    st.cls("examples_refr", k2)
    return st


def run(ctx):
    import c01
    n = 150 if ctx.quick else 4000
    parts = 8 if ctx.quick else 16
    ctx.rule = ("Hypothesis (seed from VERIF_SEED): compound = grammar formula over the 103 weighable elements (nesting <= 4, integer/fractional "
                "subscripts) | one of the 180 NIST names | invalid name (mutations, unknown symbols, Rf, empty, NULL); E = 10^U(0,3) keV or "
                "{0,-1,0.5,2000,range ends}; theta/phi in [-2pi,2pi] or special; density in (0,25] or {0,-1}; all %d-argument _CP functions and the "
                "3 refractive-index entry points; configurations A and B; %d x %d examples per property and configuration + every NIST name. "
                "Oracle: sum w_i f(Z_i); the composition of a formula is the algebraic expansion computed by the strict reference recogniser of C07 "
                "(1e-11; names it rejects must fail; for strings the documentation does not speak about and for NIST names the library's own answer, 1e-13); K and C compared with values "
                "derived from header constants (2e-5 / 1e-6) and recorded for constancy. non-trivial = successful call on a compound with "
                ">= 2 elements, distinct by (function, compound, arguments)" % (3, parts, n))
    builds = c01.prepare(ctx)
    items = []
    for cfg in ("A", "B"):
        items.append((cfg, builds[cfg]["lib"], builds[cfg]["src"], "nist", 0, ctx.seed))
        items.append((cfg, builds[cfg]["lib"], builds[cfg]["src"], "elements", 0, ctx.seed))
        for p in range(parts):
            items.append((cfg, builds[cfg]["lib"], builds[cfg]["src"], p, n, ctx.seed))
    ctx.stats.merge(common.pmap(work, items))
    ctx.assumptions = ["the composition returned by GetCompoundDataNISTByName is taken as given (decided by C15); atomic weights are the library's (C01)",
                       "elemental functions are decided by C02/C05"]


def replay(ctx, rec):
    import c01
    c = rec["case"]
    builds = c01.prepare(ctx)
    cfg = c.get("config", "A")
    env = Env(builds[cfg]["lib"], builds[cfg]["src"], cfg)
    st = Stats()
    if "density" in c:
        r = check_refr(st, env, c["compound"], c["E"], c["density"])
    else:
        a = list(c["args"]) + [0.3, 0.7]
        r = check_cp(st, env, c["compound"], a[0], a[1], a[2])
    print("replay:", r)
    return r is None
