"""C20 - every language binding declares the C API with the same constants and types.

Static, exhaustive comparison of the hand-maintained binding interfaces (Fortran module, Pascal units, Cython
declarations, Java constants, IDL files, C++ header, SWIG interface) with the public C headers, plus the exported
symbols of a freshly built libxrl and the version strings of all build/packaging files.

One small lexer per language (independent of each other, none of them shared with the C side):
  fortran   fortran/xraylib_wrap.F90 (+ xraylib_wrap_generated.F90): PARAMETER constants, BIND(C,NAME=) interface blocks,
            user-facing module procedures
  pascal    pascal/xraylib.pas, xraylib_const.pas, xraylib_iface.pas, xraylib_impl.pas: const sections, function headers,
            'external ... name' imports
  cython    python/xraylib_np_c.pxd (extern prototypes, constants by C name), python/xraylib_np.pyx (re-exports, defs)
  java      java/Xraylib.java (static final constants, constants read from xraylib.dat in the order java/pr_data_java.c
            writes them, public static methods)
  idl       idl/xraylib.pro and the files it .run's (assignments, COMMON block), idl/libxrlidl.dlm (routine table)
  cplusplus cplusplus/xraylib++.h (_XRL_FUNCTION list, ::Name(...) calls)
  swig      src/xraylib.i (%include, %ignore, %newobject, %apply and named typemaps)
"""
import os, re, subprocess
import common, vbuild, xrl

FAMILIES = ("shell", "line", "trans", "auger", "nist", "radio")
LIBC_OK = {"strlen", "free", "malloc"}          # libc functions a binding may import next to xraylib's
REL_TOL = 1e-9


def family_of(name):
    u = name.upper()
    if u.startswith("NIST_COMPOUND_"):
        return "nist"
    if u.startswith("RADIO_NUCLIDE_"):
        return "radio"
    for suf, f in (("_SHELL", "shell"), ("_LINE", "line"), ("_TRANS", "trans"), ("_AUGER", "auger")):
        if u.endswith(suf):
            return f
    return None


def read(repo, rel):
    p = os.path.join(repo, rel)
    if not os.path.isfile(p):
        return None
    with open(p, encoding="utf-8", errors="replace") as f:
        return f.read()


def lineno(text, pos):
    return text.count("\n", 0, pos) + 1


def split_top(s, sep=","):
    """split at separators that are not inside () [] or quotes"""
    out, depth, cur, q = [], 0, [], None
    for ch in s:
        if q:
            cur.append(ch)
            if ch == q:
                q = None
            continue
        if ch in "'\"":
            q = ch
            cur.append(ch)
        elif ch in "([":
            depth += 1
            cur.append(ch)
        elif ch in ")]":
            depth -= 1
            cur.append(ch)
        elif ch == sep and depth == 0:
            out.append("".join(cur))
            cur = []
        else:
            cur.append(ch)
    out.append("".join(cur))
    return out


# ====================================================================================================== C side

C_WORDS = {"const", "unsigned", "signed", "struct", "int", "double", "char", "void", "float", "long", "short", "size_t",
           "xrlComplex", "xrl_error", "xrl_error_code", "Crystal_Struct", "Crystal_Array", "Crystal_Atom", "enum"}


def c_arg(a):
    """'const char compound[]' -> ('const char*', 'compound')"""
    toks = re.findall(r"[A-Za-z_]\w*|\*|\[\s*\]", a)
    words = [t for t in toks if re.match(r"[A-Za-z_]", t)]
    stars = sum(1 for t in toks if t == "*" or t.startswith("["))
    name = None
    if len(words) >= 2 and words[-1] not in C_WORDS and words[-2] not in ("struct", "enum"):
        name = words.pop()
    elif len(words) >= 3 and words[-1] not in C_WORDS and words[-3] in ("struct", "enum"):
        name = words.pop()
    return " ".join(words) + "*" * stars, name


def c_decls(text):
    """every function declaration 'type name(args);' of a C header, with or without XRL_EXTERN"""
    t = xrl.strip_comments(text)
    t = re.sub(r"\\\n", " ", t)
    t = re.sub(r"#\s*ifdef\s+__cplusplus.*?#\s*endif", "", t, flags=re.S)
    t = re.sub(r"^[ \t]*#.*$", "", t, flags=re.M)
    while True:
        t2 = re.sub(r"\{[^{}]*\}", " ", t)
        if t2 == t:
            break
        t = t2
    out = {}
    for stmt in t.split(";"):
        s = " ".join(stmt.split())
        m = re.fullmatch(r"(.*?)\b([A-Za-z_]\w*)\s*\((.*)\)", s)
        if not m:
            continue
        head, name, args = m.group(1).strip(), m.group(2), m.group(3).strip()
        if head.startswith("typedef") or "(" in head or ")" in head:
            continue
        hw = head.replace("*", " * ").split()
        extern = any(w in ("XRL_EXTERN", "XRL_DEPRECATED") for w in hw)
        hw = [w for w in hw if w not in ("XRL_EXTERN", "XRL_DEPRECATED", "extern")]
        if not hw or not all(re.fullmatch(r"[A-Za-z_]\w*|\*", w) for w in hw):
            continue
        ret = " ".join(w for w in hw if w != "*") + "*" * hw.count("*")
        al = []
        if args not in ("", "void"):
            al = [c_arg(a) for a in split_top(args)]
        out[name] = dict(ret=ret, args=al, marked=extern)
    return out


def c_defs(text):
    """non-static function definitions at column 0 of a C source"""
    t = xrl.strip_comments(text)
    out = {}
    for m in re.finditer(r"^([A-Za-z_][\w \t\*]*?)\b([A-Za-z_]\w*)[ \t]*\(([^;{}()]*)\)\s*\{", t, re.M):
        head, name, args = m.group(1).strip(), m.group(2), " ".join(m.group(3).split())
        hw = head.replace("*", " * ").split()
        if not hw or hw[0] in ("static", "else", "return", "typedef", "if", "for", "while", "switch") or "static" in hw:
            continue
        hw = [w for w in hw if w not in ("XRL_EXTERN", "extern", "inline")]
        if not hw:
            continue
        ret = " ".join(w for w in hw if w != "*") + "*" * hw.count("*")
        al = []
        if args not in ("", "void"):
            al = [c_arg(a) for a in split_top(args)]
        out[name] = dict(ret=ret, args=al, marked=False)
    return out


def c_structs(text):
    """{name: [(type, field)]} of 'struct name {...}' and 'typedef struct [tag] {...} name;'"""
    t = xrl.strip_comments(text)
    t = re.sub(r"^[ \t]*#.*$", "", t, flags=re.M)
    out = {}
    for m in re.finditer(r"\b(typedef\s+)?struct\s*(\w*)\s*\{([^{}]*)\}\s*(\w*)\s*;", t):
        fields = []
        for decl in m.group(3).split(";"):
            decl = " ".join(decl.split())
            if not decl:
                continue
            parts = split_top(decl)
            typ, name = c_arg(parts[0])
            base = typ.rstrip("*")
            fields.append((typ, name))
            for extra in parts[1:]:
                fields.append((base + "*" * extra.count("*"), extra.replace("*", "").strip()))
        for nm in (m.group(2), m.group(4) if m.group(1) else ""):
            if nm:
                out[nm] = fields
    return out


def cclass(t):
    """coarse class of a C type: int double size_t void str strlist int* double* err** ptr ptr:<struct> struct:<name>"""
    base = re.sub(r"\b(const|struct|enum)\b", " ", t)
    stars = base.count("*")
    base = base.replace("*", " ").strip()
    if stars == 0:
        if base in ("int", "xrl_error_code"):
            return "int"
        if base in ("double", "size_t", "void"):
            return base
        return "struct:" + base
    if base == "char":
        return "str" if stars == 1 else "strlist"
    if base in ("int", "double") and stars == 1:
        return base + "*"
    if base == "xrl_error" and stars == 2:
        return "err**"
    if base == "void":
        return "ptr"
    if stars >= 2:
        return "ptr*"
    return "ptr:" + base


def is_ptr(ck):
    return ck in ("str", "strlist", "int*", "double*", "err**", "ptr", "ptr*") or ck.startswith("ptr:")


def norm_struct(n):
    n = n.lower()
    n = re.sub(r"_c$", "", n)
    return n.replace("_", "")


class CSide:
    def __init__(self, repo):
        self.repo = repo
        self.h = xrl.Headers(repo)
        self.val = self.h.val
        self.upper = {}
        for n in self.val:
            self.upper.setdefault(n.upper(), []).append(n)
        self.fam = {f: {} for f in FAMILIES}
        for n, v in self.val.items():
            f = family_of(n)
            if f and isinstance(v, int):
                self.fam[f][n] = v
        # public prototypes, own parse (includes declarations that lost their XRL_EXTERN)
        self.public = {}
        self.struct_tags = set()
        self.structs = {}
        inc = os.path.join(repo, "include")
        for f in sorted(os.listdir(inc)):
            if not (f.startswith("xraylib") and f.endswith(".h")):
                continue
            t = read(repo, "include/" + f)
            for n, p in c_decls(t).items():
                p["header"] = f
                self.public[n] = p
            self.structs.update(c_structs(t))
            ts = xrl.strip_comments(t)
            self.struct_tags |= set(re.findall(r"\bstruct\s+([A-Za-z_]\w*)\s*\{", ts))
            self.struct_tags |= set(re.findall(r"\}\s*([A-Za-z_]\w*)\s*;", ts))
            self.struct_tags |= set(re.findall(r"typedef\s+struct\s+\w+\s+([A-Za-z_]\w*)\s*;", ts))
        # functions that exist in the C sources without being part of the public headers
        self.private = {}
        sd = os.path.join(repo, "src")
        for f in sorted(os.listdir(sd)):
            t = read(repo, "src/" + f)
            if f.endswith(".h"):
                d = c_decls(t)
            elif f.endswith(".c"):
                d = c_defs(t)
            else:
                continue
            for n, p in d.items():
                if n not in self.public:
                    p["header"] = "src/" + f
                    self.private.setdefault(n, p)
        self.lower = {}
        for n in list(self.private) + list(self.public):
            self.lower[n.lower()] = n

    def proto(self, name, ci=False):
        if ci:
            name = self.lower.get(name.lower(), name)
        return name, (self.public.get(name) or self.private.get(name))

    def cname(self, name, ci):
        """C macro of that name (case-insensitively for case-insensitive languages)"""
        if name in self.val:
            return name
        if ci:
            c = self.upper.get(name.upper())
            if c and len(c) == 1:
                return c[0]
        return None


def user_args(p, drop_out=False):
    """what a high-level wrapper is expected to take: no xrl_error**, no Crystal_Array* (default array), no element-count
    output of list functions; optionally no scalar output pointers either"""
    out = []
    for t, n in p["args"]:
        ck = cclass(t)
        if ck == "err**" or ck == "ptr:Crystal_Array":
            continue
        if ck == "int*" and cclass(p["ret"]) == "strlist":
            continue
        if drop_out and ck in ("int*", "double*"):
            continue
        out.append((t, n))
    return out


def simple_numeric(p):
    """double f(int|double|const char*..., xrl_error**)"""
    if cclass(p["ret"]) != "double" or not p["args"] or cclass(p["args"][-1][0]) != "err**":
        return False
    return all(cclass(t) in ("int", "double", "str") for t, n in p["args"][:-1])


# ====================================================================================================== reporting helpers

class Rep:
    def __init__(self, st, C):
        self.st, self.C = st, C
        self.wrapped = {}     # binding -> set of C functions it declares
        self.extra = {}       # binding -> names that C does not define (ignored)
        self.consts = {}      # binding -> number of same-name constants compared
        self.unpublished = {} # binding -> families it does not publish at all

    def cmp(self, cls, case=None):
        self.st.ev()
        self.st.nt()
        self.st.cls(cls)
        if case is not None:
            self.st.sample(cls, case, cap=2)

    def wrap(self, binding, fn):
        self.wrapped.setdefault(binding, set()).add(fn)

    def ignore(self, binding, name):
        self.extra.setdefault(binding, set()).add(name)
        self.st.cls("ignored-not-in-C:" + binding)


def lit_ulp(lit):
    """half a unit in the last written decimal place of a real literal, None if it is not a plain literal"""
    m = re.fullmatch(r"[+-]?(\d*)(?:\.(\d*))?(?:[eEdD]([+-]?\d+))?", lit.strip())
    if not m or (not m.group(1) and not m.group(2)):
        return None
    frac = len(m.group(2) or "")
    ex = int(m.group(3) or 0)
    return 0.5 * 10.0 ** (ex - frac)


def value_equal(cv, bv, lit=None):
    """integers exactly; reals to the precision the binding writes, but never coarser than 1e-9 relative
    (and never finer than what a double can hold)"""
    if isinstance(cv, int) and not isinstance(cv, bool):
        return isinstance(bv, (int, float)) and bv == cv
    tol = REL_TOL * abs(cv)
    u = lit_ulp(lit) if lit is not None else None
    if u is not None:
        tol = min(tol, u * (1 + 1e-6))
    tol = max(tol, 4e-16 * abs(cv))
    return abs(bv - cv) <= tol


def check_const(R, binding, name, bv, lit, where, ci=False, note=None):
    """(a) same-name constant => same value.  Returns the C name when C defines it."""
    cn = R.C.cname(name, ci)
    if cn is None:
        R.ignore(binding, name)
        return None
    cv = R.C.val[cn]
    fam = family_of(cn) or "other"
    case = dict(binding=binding, name=cn, file=where[0], line=where[1])
    R.cmp("const:%s:%s" % (binding, fam), dict(case, c_value=cv, binding_value=bv))
    R.consts[binding] = R.consts.get(binding, 0) + 1
    if bv is None or not value_equal(cv, bv, lit):
        R.st.violation("const:%s:%s" % (binding, cn), case, expected="%r (%s: #define %s %s)" % (cv, R.C.h.where[cn], cn, R.C.h.raw[cn]),
                       got=(lit if lit is not None else bv) if note is None else "%s (%s)" % (lit if lit is not None else bv, note))
    return cn


FAMILY_ARG = dict(shell="shell", line="line", trans="trans", auger="auger_trans", nist="compoundIndex", radio="radioNuclideIndex")


def check_complete(R, binding, have, where_file, wrapped_as=None):
    """(b) the six macro families are exposed completely; `have` = set of C names the binding defines.
    A family is due when the binding publishes at least one member of it or wraps a C function that takes such a macro
    (decided from the argument names of the C prototypes); a family the binding has no use for is only noted."""
    wrapped = set()
    for b in (wrapped_as or [binding]):
        wrapped |= R.wrapped.get(b, set())
    for fam in FAMILIES:
        consumers = sorted(n for n, p in R.C.public.items() if any(a == FAMILY_ARG[fam] and cclass(t) == "int" for t, a in p["args"]))
        used = [n for n in consumers if n in wrapped]
        if not any(cn in have for cn in R.C.fam[fam]) and not used:
            R.st.cls("family-not-published:%s:%s" % (binding, fam))
            R.unpublished.setdefault(binding, []).append(fam)
            continue
        for cn in R.C.fam[fam]:
            R.cmp("complete:%s:%s" % (binding, fam))
            if cn not in have:
                R.st.violation("missing:%s:%s:%s" % (binding, fam, cn), dict(binding=binding, family=fam, name=cn, file=where_file),
                               expected="%s = %r exposed (defined in %s)" % (cn, R.C.val[cn], R.C.h.where[cn]),
                               got="not defined by the binding" + (" although it wraps %s" % used[0] if used else ""))


def check_struct(R, binding, name, fields, where, compat):
    """a struct/record/derived type that mirrors a C struct has the same fields in the same order.
    fields = [(field name, kind)]; compat(kind, C class) decides type agreement"""
    C = R.C
    key = {norm_struct(re.sub(r"^_", "", n)): n for n in C.structs}
    stem = re.sub(r"^[TP](?=[A-Z])", "", name)
    cn = key.get(norm_struct(stem))
    if cn is None and stem.endswith("C"):
        cn = key.get(norm_struct(stem[:-1]))
    if cn is None:
        R.ignore(binding + "-type", name)
        return
    cf = C.structs[cn]
    case = dict(binding=binding, struct=cn, binding_name=name, file=where[0], line=where[1])
    R.cmp("struct:" + binding, case)
    want = ", ".join("%s %s" % f for f in cf)
    if len(fields) != len(cf):
        R.st.violation("struct:%s:%s:fields" % (binding, cn), case, expected="%d fields: %s" % (len(cf), want), got="%d fields: %s" % (len(fields), ", ".join(f[0] for f in fields)))
        return
    bad = []
    for i, ((fn, fk), (ct, cfn)) in enumerate(zip(fields, cf)):
        if fn.lower() != cfn.lower():
            bad.append("field %d is '%s', C has '%s'" % (i + 1, fn, cfn))
        elif not compat(fk, cclass(ct)):
            bad.append("field '%s': %s vs C %s" % (fn, fk, ct))
    if bad:
        R.st.violation("struct:%s:%s:layout" % (binding, cn), case, expected=want, got="; ".join(bad))


def proto_violation(R, binding, fn, what, case, expected, got):
    R.st.violation("proto:%s:%s:%s" % (binding, fn, what), case, expected=expected, got=got)


def c_sig(p):
    return "%s (%s)" % (p["ret"], ", ".join(t for t, n in p["args"]))


# ====================================================================================================== Fortran

def f_strip_comment(line):
    q = None
    for i, ch in enumerate(line):
        if q:
            if ch == q:
                q = None
        elif ch in "'\"":
            q = ch
        elif ch == "!":
            return line[:i]
    return line


def f_statements(text):
    """[(line, statement)] comments removed, continuation lines joined; cpp lines kept verbatim"""
    out, cur, cur_ln = [], None, None
    for ln, raw in enumerate(text.split("\n"), 1):
        if raw.lstrip().startswith("#"):
            out.append((ln, raw.strip()))
            continue
        s = f_strip_comment(raw).strip()
        if not s:
            continue
        if cur is not None:
            if s.startswith("&"):
                s = s[1:].lstrip()
            cur += " " + s
        else:
            cur, cur_ln = s, ln
        if cur.endswith("&"):
            cur = cur[:-1].rstrip()
            continue
        out.append((cur_ln, cur))
        cur = None
    if cur:
        out.append((cur_ln, cur))
    return out


F_PARAM = re.compile(r"^(INTEGER|REAL)\s*\(([^)]*)\)\s*,\s*PARAMETER\s*::\s*(\w+)\s*=\s*(.+)$", re.I)
F_PROC = re.compile(r"^(?:(?:PURE|ELEMENTAL|RECURSIVE)\s+)*(FUNCTION|SUBROUTINE)\s+(\w+)\s*(?:\(([^)]*)\))?(.*)$", re.I)
F_END = re.compile(r"^END\s*(FUNCTION|SUBROUTINE)\b", re.I)
F_DECL = re.compile(r"^(INTEGER|REAL|CHARACTER|LOGICAL|TYPE|COMPLEX)\s*\(", re.I)


def f_value(expr, env, cpp):
    """-> (value, literal or None, 'int'|'single'|'double'|'ref')"""
    e = expr.strip()
    if e in cpp:
        e = cpp[e].strip()
    m = re.fullmatch(r"([+-]?\d+)(_\w+)?", e)
    if m:
        return int(m.group(1)), None, "int"
    m = re.fullmatch(r"([+-]?(?:\d+\.\d*|\.\d+|\d+))(?:([eEdD])([+-]?\d+))?(_\w+)?", e)
    if m:
        mant, el, ex, suf = m.groups()
        v = float(mant + ("e" + ex if ex else ""))
        dbl = (el in ("d", "D")) or (suf is not None and suf.upper() in ("_C_DOUBLE", "_8", "_DP", "_REAL64"))
        return v, mant + ("e" + ex if ex else ""), "double" if dbl else "single"
    if re.fullmatch(r"[A-Za-z_]\w*", e):
        if e.lower() in env:
            return env[e.lower()], None, "ref"
    return None, e, "?"


def f_decl(stmt):
    """'INTEGER (C_INT), INTENT(IN), VALUE :: a, b' -> (base, spec, attrs, [(name, hasdims)])"""
    if "::" not in stmt:
        return None
    left, right = stmt.split("::", 1)
    parts = [p.strip() for p in split_top(left)]
    m = re.match(r"^(\w+)\s*\((.*)\)$", parts[0], re.S)
    if not m:
        return None
    base, spec = m.group(1).upper(), m.group(2).strip()
    attrs = [re.sub(r"\s+", "", a.upper()) for a in parts[1:]]
    ents = []
    for e in split_top(right):
        e = e.split("=")[0].strip()
        em = re.match(r"^(\w+)\s*(\(.*\))?$", e)
        if em:
            ents.append((em.group(1).lower(), bool(em.group(2))))
    return base, spec, attrs, ents


def f_kind(base, spec, attrs, dims, force_value=False):
    value = force_value or "VALUE" in attrs
    su = re.sub(r"\s+|KIND=", "", spec.upper())
    if base == "INTEGER":
        if su == "C_INT" or su.startswith("KIND("):
            return "int" if value else "int*"
        if su == "C_SIZE_T":
            return "size_t" if value else "size_t*"
    elif base == "REAL":
        if su == "C_DOUBLE":
            return "double" if value else "double*"
    elif base == "TYPE":
        if su == "C_PTR":
            return "ptr" if value else "ptr*"
        if su == "XRL_ERROR":
            return "err**"
        return ("struct:" if value else "ref:") + spec.strip()
    elif base == "CHARACTER":
        if "C_CHAR" in su:
            return "str"
    return "?:%s(%s)" % (base, spec)


def f_compat(fk, ck):
    if fk in ("int", "double", "size_t", "int*", "double*", "str", "err**"):
        return fk == ck
    if fk == "ptr":
        return is_ptr(ck)
    if fk == "ptr*":
        return ck in ("strlist", "err**", "ptr*")
    if fk.startswith("struct:"):
        return ck.startswith("struct:") and norm_struct(fk[7:]) == norm_struct(ck[7:])
    if fk.startswith("ref:"):
        return ck.startswith("ptr:") and norm_struct(fk[4:]) == norm_struct(ck[4:])
    return False


def fortran_parse(repo):
    """-> dict(consts=[(name, value, lit, kind, file, line)], binds=[...], procs=[...]) or None"""
    main = "fortran/xraylib_wrap.F90"
    text = read(repo, main)
    if text is None:
        return None
    stmts = []
    for ln, s in f_statements(text):
        m = re.match(r'#\s*include\s+"([^"]+)"', s)
        if m:
            inc = "fortran/" + m.group(1)
            t2 = read(repo, inc)
            if t2 is not None:
                stmts += [(inc, l2, s2) for l2, s2 in f_statements(t2)]
            continue
        stmts.append((main, ln, s))
    cpp, env, consts, binds, procs, types = {}, {}, [], [], [], []
    stack = []
    in_type = False
    cur_type = None
    for fl, ln, s in stmts:
        if s.startswith("#"):
            m = re.match(r"#\s*define\s+(\w+)\s+(.+)$", s)
            if m:
                cpp[m.group(1)] = m.group(2).strip()
            continue
        if F_END.match(s):
            if stack:
                fr = stack.pop()
                (binds if fr["bind"] else procs).append(fr)
            continue
        if re.match(r"^END\s*TYPE\b", s, re.I):
            in_type = False
            cur_type = None
            continue
        if re.match(r"^TYPE\s*(,|::|\s+[A-Za-z_])", s, re.I) and not re.match(r"^TYPE\s*\(", s, re.I):
            in_type = True
            cur_type = None
            tm = re.match(r"^TYPE\s*,\s*BIND\s*\(\s*C\s*\)\s*::\s*(\w+)", s, re.I)
            if tm:
                cur_type = dict(name=tm.group(1), fields=[], file=fl, line=ln)
                types.append(cur_type)
            continue
        if in_type:
            if cur_type is not None and F_DECL.match(s):
                d = f_decl(s)
                if d:
                    for en, dims in d[3]:
                        cur_type["fields"].append((en, f_kind(d[0], d[1], d[2], dims, force_value=True)))
            continue
        m = F_PARAM.match(s)
        if m and not stack:
            base, spec, name, expr = m.groups()
            v, lit, kind = f_value(expr, env, cpp)
            if v is not None:
                env[name.lower()] = v
            consts.append(dict(name=name, value=v, lit=lit, kind=kind, base=base.upper(), file=fl, line=ln, expr=expr.strip()))
            continue
        m = F_PROC.match(s)
        if m:
            kind, name, args, rest = m.groups()
            bm = re.search(r"BIND\s*\(\s*C\s*(?:,\s*NAME\s*=\s*(['\"])(\w+)\1)?\s*\)", rest, re.I)
            rm = re.search(r"RESULT\s*\(\s*(\w+)\s*\)", rest, re.I)
            al = [a.strip().lower() for a in (args or "").split(",") if a.strip()]
            stack.append(dict(kind=kind.upper(), name=name, args=al, bind=(bm.group(2) or name) if bm else None,
                              result=(rm.group(1) if rm else name).lower(), decl={}, file=fl, line=ln, depth=len(stack)))
            continue
        if stack and F_DECL.match(s):
            d = f_decl(s)
            if d:
                base, spec, attrs, ents = d
                for en, dims in ents:
                    stack[-1]["decl"].setdefault(en, (base, spec, attrs, dims))
    return dict(consts=consts, binds=binds, procs=procs, types=types, file=main)


def c_enums(repo):
    """{enumerator: value} of every enum in include/*.h (positional, explicit initialisers honoured)"""
    out = {}
    inc = os.path.join(repo, "include")
    for f in sorted(os.listdir(inc)) if os.path.isdir(inc) else []:
        if not f.endswith(".h"):
            continue
        s = c_like_strip(open(os.path.join(inc, f), errors="replace").read())
        for m in re.finditer(r"\benum\b[^{;]*\{([^}]*)\}", s):
            v = -1
            for item in m.group(1).split(","):
                item = item.strip()
                if not item:
                    continue
                nm, _, init = item.partition("=")
                try:
                    v = int(init.strip(), 0) if init.strip() else v + 1
                except ValueError:
                    v = v + 1
                out[nm.strip()] = v
    return out


def check_fortran_enums(R):
    """ENUM, BIND(C) blocks of the Fortran module: the enumerators are positional, so their order is their value"""
    txt = read(R.C.repo, "fortran/xraylib_wrap.F90")
    if txt is None:
        return
    cen = c_enums(R.C.repo)
    s = re.sub(r"!.*", "", txt)
    for m in re.finditer(r"^\s*ENUM\s*,\s*BIND\s*\(\s*C\s*\)(.*?)^\s*END\s*ENUM", s, re.I | re.S | re.M):
        v = -1
        for em in re.finditer(r"ENUMERATOR\s*(?:::)?\s*([^\n]+)", m.group(1), re.I):
            for item in em.group(1).split(","):
                nm, _, init = item.strip().partition("=")
                nm = nm.strip()
                if not nm:
                    continue
                try:
                    v = int(init.strip()) if init.strip() else v + 1
                except ValueError:
                    v = v + 1
                cn = next((k for k in cen if k.lower() == nm.lower()), None)
                case = dict(binding="fortran", name=nm, file="fortran/xraylib_wrap.F90", line=lineno(s, m.start()))
                R.cmp("const:fortran:enum", case)
                if cn is None:
                    R.ignore("fortran-enum", nm)
                elif cen[cn] != v:
                    R.st.violation("const:fortran:%s" % cn, case, expected="%d (C enumerator %s)" % (cen[cn], cn), got="%d (position in the ENUM block)" % v)


def check_fortran(R):
    F = fortran_parse(R.C.repo)
    if F is None:
        R.st.cls("binding-absent:fortran")
        return
    check_fortran_enums(R)
    C, st = R.C, R.st
    have = set()
    for c in F["consts"]:
        cn = check_const(R, "fortran", c["name"], c["value"], c["lit"], (c["file"], c["line"]), ci=True)
        if cn:
            have.add(cn)
            if isinstance(C.val[cn], float) and c["kind"] == "single":
                # a default-kind real literal is single precision in Fortran whatever the kind of the PARAMETER
                import struct
                sp = struct.unpack("f", struct.pack("f", c["value"]))[0]
                R.cmp("const:fortran:literal-kind")
                if abs(sp - C.val[cn]) > REL_TOL * abs(C.val[cn]):
                    st.violation("const:fortran:%s:single-precision-literal" % cn,
                                 dict(binding="fortran", name=cn, file=c["file"], line=c["line"]),
                                 expected="%r as a C_DOUBLE literal (e.g. %s_C_DOUBLE)" % (C.val[cn], C.h.raw[cn]),
                                 got="%s without kind suffix = default REAL, i.e. %.17g after conversion to C_DOUBLE" % (c["expr"], sp))
    # --- BIND(C) layer: must be the C prototype exactly
    for b in F["binds"]:
        cname = b["bind"]
        case = dict(binding="fortran", function=cname, fortran_name=b["name"], file=b["file"], line=b["line"])
        n, p = C.proto(cname)
        R.cmp("proto:fortran:bind", case)
        if p is None:
            if cname in LIBC_OK:
                st.cls("libc-import:fortran")
                continue
            proto_violation(R, "fortran", cname, "unknown", case, "a function of the C library", "BIND(C,NAME='%s')" % cname)
            continue
        R.wrap("fortran", cname)
        # convention of this module: the interface is called <Cname>C (or exactly the C name)
        ln_ = b["name"].lower()
        if ln_ != cname.lower() and ln_.endswith("c") and ln_[:-1] in C.lower and ln_[:-1] != cname.lower():
            proto_violation(R, "fortran", b["name"], "name", case, "BIND name '%s'" % C.lower[ln_[:-1]], "BIND(C,NAME='%s')" % cname)
        if len(b["args"]) != len(p["args"]):
            proto_violation(R, "fortran", cname, "arity", case, "%d arguments: %s" % (len(p["args"]), c_sig(p)), "%d dummy arguments (%s)" % (len(b["args"]), ", ".join(b["args"])))
            continue
        bad = []
        for i, (a, (ct, cn_)) in enumerate(zip(b["args"], p["args"])):
            d = b["decl"].get(a)
            fk = f_kind(*d) if d else "undeclared"
            if not f_compat(fk, cclass(ct)):
                bad.append("arg %d '%s': Fortran %s vs C %s" % (i + 1, a, fk, ct))
        if bad:
            proto_violation(R, "fortran", cname, "argtype", case, c_sig(p), "; ".join(bad))
        ck = cclass(p["ret"])
        if b["kind"] == "SUBROUTINE":
            fk = "void"
        else:
            d = b["decl"].get(b["result"])
            fk = f_kind(d[0], d[1], d[2], d[3], force_value=True) if d else "undeclared"
        ok = (fk == "void" and ck == "void") or (fk != "void" and ck != "void" and f_compat(fk, ck))
        if not ok:
            proto_violation(R, "fortran", cname, "ret", case, "returns " + p["ret"], "Fortran %s %s" % (b["kind"], fk))
    # --- user-facing module procedures carrying a C name
    for pr in F["procs"]:
        if pr["depth"] != 0:
            continue
        n, p = C.proto(pr["name"], ci=True)
        if p is None:
            R.ignore("fortran-user", pr["name"])
            continue
        case = dict(binding="fortran", function=n, layer="user", file=pr["file"], line=pr["line"])
        if not simple_numeric(p):
            st.cls("user-wrapper-not-type-checked:fortran")
            continue
        R.cmp("proto:fortran:user", case)
        if len(pr["args"]) != len(p["args"]):
            proto_violation(R, "fortran", n, "user-arity", case, "%d arguments (error optional): %s" % (len(p["args"]), c_sig(p)),
                            "%d dummy arguments (%s)" % (len(pr["args"]), ", ".join(pr["args"])))
            continue
        bad = []
        for i, (a, (ct, cn_)) in enumerate(zip(pr["args"], p["args"])):
            d = pr["decl"].get(a)
            fk = f_kind(d[0], d[1], d[2], d[3], force_value=True) if d else "undeclared"
            if fk != cclass(ct):
                bad.append("arg %d '%s': Fortran %s vs C %s" % (i + 1, a, fk, ct))
        d = pr["decl"].get(pr["result"])
        fk = f_kind(d[0], d[1], d[2], d[3], force_value=True) if d else "undeclared"
        if fk != "double":
            bad.append("result: Fortran %s vs C double" % fk)
        if bad:
            proto_violation(R, "fortran", n, "user-argtype", case, c_sig(p), "; ".join(bad))
    check_complete(R, "fortran", have, F["file"])
    for t in F["types"]:
        check_struct(R, "fortran", t["name"], t["fields"], (t["file"], t["line"]), f_compat)


# ====================================================================================================== Pascal

def pas_strip(text):
    """comments -> blanks (newlines kept); string literals kept"""
    out, i, n = [], 0, len(text)
    while i < n:
        ch = text[i]
        if ch == "'":
            j = text.find("'", i + 1)
            j = n - 1 if j < 0 else j
            out.append(text[i:j + 1])
            i = j + 1
        elif ch == "{":
            j = text.find("}", i)
            j = n - 1 if j < 0 else j
            out.append(re.sub(r"[^\n]", " ", text[i:j + 1]))
            i = j + 1
        elif text.startswith("(*", i):
            j = text.find("*)", i)
            j = n - 2 if j < 0 else j
            out.append(re.sub(r"[^\n]", " ", text[i:j + 2]))
            i = j + 2
        elif text.startswith("//", i):
            j = text.find("\n", i)
            j = n if j < 0 else j
            out.append(" " * (j - i))
            i = j
        else:
            out.append(ch)
            i += 1
    return "".join(out)


def pas_eval(expr, env):
    """-> (value, literal or None)"""
    e = expr.strip()
    if "'" in e:
        return None, None
    if re.fullmatch(r"[+-]?\d+", e):
        return int(e), None
    if re.fullmatch(r"[+-]?(\d+\.\d*|\.\d+|\d+)([eE][+-]?\d+)?", e):
        return float(e), e
    if not re.fullmatch(r"[\w\s+\-*/().]+", e):
        return None, None

    def sub(m):
        t = m.group(0)
        if re.match(r"[\d.]", t):
            return t
        v = env.get(t.lower())
        if v is None:
            raise KeyError(t)
        return "(" + repr(v) + ")"
    try:
        return eval(re.sub(r"\d+\.?\d*(?:[eE][+-]?\d+)?|[A-Za-z_]\w*", sub, e), {"__builtins__": {}}, {}), None
    except Exception:
        return None, None


def pas_consts(text, fl, env):
    out = []
    section = None
    for ln, line in enumerate(pas_strip(text).split("\n"), 1):
        m = re.match(r"^\s*(const|type|var|implementation|interface|uses|begin|unit|function|procedure|end)\b(.*)$", line, re.I)
        if m:
            section = m.group(1).lower()
            line = m.group(2) if section == "const" else ""
        if section != "const":
            continue
        m = re.match(r"^\s*([A-Za-z_]\w*)\s*=\s*(.+?)\s*;\s*$", line)
        if not m:
            continue
        name, expr = m.groups()
        v, lit = pas_eval(expr, env)
        if v is None and "'" in expr:
            continue
        if v is not None:
            env[name.lower()] = v
        out.append(dict(name=name, value=v, lit=lit, expr=expr, file=fl, line=ln))
    return out


PAS_FN = re.compile(r"\b(function|procedure)\s+(\w+)\s*(?:\(([^)]*)\))?\s*(?::\s*([\w^]+))?\s*;((?:\s*(?:cdecl|stdcall|overload|inline)\s*;)*)(\s*external\b[^;]*;)?", re.I)


def pas_kind(t, mode=None):
    tl = t.lower()
    k = None
    if tl in ("longint", "integer", "cint", "int32"):
        k = "int"
    elif tl == "double":
        k = "double"
    elif tl in ("string", "ansistring", "pansichar", "pchar"):
        k = "str"
    elif tl in ("ppansichar", "tstringarray"):
        k = "strlist"
    elif tl == "pointer":
        k = "ptr"
    elif tl == "ppxrl_error":
        k = "err**"
    elif tl in ("size_t", "csize_t", "nativeuint"):
        k = "size_t"
    elif re.match(r"^p[a-z]", tl) and len(tl) > 1:
        k = "ptr:" + t[1:]
    else:
        k = "struct:" + t
    if mode in ("var", "out"):
        if k in ("int", "double"):
            return k + "*"
        return "ptr*"
    return k


def pas_compat(pk, ck):
    if pk == "ptr":
        return is_ptr(ck)
    if pk.startswith("ptr:"):
        if ck == "ptr":
            return True
        return ck.startswith("ptr:") and norm_struct(re.sub(r"^t(?=[A-Z])", "", pk[4:])) == norm_struct(ck[4:])
    if pk.startswith("struct:"):
        return ck.startswith("struct:") and norm_struct(pk[7:]) == norm_struct(ck[7:])
    return pk == ck


def pas_functions(text, fl):
    s = pas_strip(text)
    impl = re.search(r"^\s*implementation\b", s, re.I | re.M)
    impl_pos = impl.start() if impl else None
    out = []
    for m in PAS_FN.finditer(s):
        kind, name, params, ret, mods, ext = m.groups()
        args = []
        for grp in (params or "").split(";"):
            grp = grp.strip()
            if not grp:
                continue
            gm = re.match(r"^(?:(var|const|out)\s+)?(.+?)\s*:\s*([\w^]+)$", grp, re.I | re.S)
            if not gm:
                args.append((grp, "?:" + grp))
                continue
            mode, names, typ = gm.groups()
            for nm in names.split(","):
                args.append((nm.strip(), pas_kind(typ, mode.lower() if mode else None)))
        cname = None
        if ext:
            nm = re.search(r"\bname\s+'(\w+)'", ext, re.I)
            cname = nm.group(1) if nm else name
        out.append(dict(kind=kind.lower(), name=name, args=args, ret=pas_kind(ret) if ret else "void", ret_text=ret, cname=cname, mods=(mods or "").lower(),
                        file=fl, line=lineno(s, m.start()),
                        impl=(impl_pos is not None and m.start() > impl_pos) or fl.endswith("_impl.pas")))
    return out


def pas_records(text, fl):
    s = pas_strip(text)
    out = []
    for m in re.finditer(r"\b(\w+)\s*=\s*(?:packed\s+)?record\b(.*?)\bend\s*;", s, re.I | re.S):
        fields = []
        for decl in m.group(2).split(";"):
            dm = re.match(r"^\s*([\w\s,]+?)\s*:\s*(.+?)\s*$", decl, re.S)
            if not dm:
                continue
            typ = " ".join(dm.group(2).split())
            if re.match(r"^array\s+of\b", typ, re.I) or typ.startswith("^"):
                k = "ptr"
            elif typ.lower() == "xrl_error_code":
                k = "int"
            else:
                k = pas_kind(typ)
            for nm in dm.group(1).split(","):
                fields.append((nm.strip(), k))
        out.append(dict(name=m.group(1), fields=fields, file=fl, line=lineno(s, m.start())))
    return out


def check_pascal(R):
    C, st = R.C, R.st
    files = ["pascal/xraylib.pas", "pascal/xraylib_const.pas", "pascal/xraylib_iface.pas", "pascal/xraylib_impl.pas"]
    texts = {f: read(C.repo, f) for f in files}
    if all(t is None for t in texts.values()):
        st.cls("binding-absent:pascal")
        return
    env, consts = {}, []
    # evaluation order: the unit's own constants first, then the included constant file
    for f in ("pascal/xraylib.pas", "pascal/xraylib_const.pas"):
        if texts[f] is not None:
            consts += pas_consts(texts[f], f, env)
    have = set()
    for c in consts:
        cn = check_const(R, "pascal", c["name"], c["value"], c["lit"] if c["lit"] else (None if c["value"] is not None else c["expr"]),
                         (c["file"], c["line"]), ci=True)
        if cn:
            have.add(cn)
    fns = []
    for f in files:
        if texts[f] is not None and not f.endswith("_const.pas"):
            fns += pas_functions(texts[f], f)
    for fn in fns:
        if fn["cname"] is not None:
            # ---- C import: the full C prototype
            cname = fn["cname"]
            case = dict(binding="pascal", function=cname, pascal_name=fn["name"], layer="external", file=fn["file"], line=fn["line"])
            n, p = C.proto(cname)
            R.cmp("proto:pascal:external", case)
            if p is None:
                proto_violation(R, "pascal", cname, "unknown", case, "a function of the C library", "external name '%s'" % cname)
                continue
            R.wrap("pascal", cname)
            pn = fn["name"]
            stem = pn[:-2] if pn.lower().endswith("_c") else pn
            if stem.lower() != cname.lower() and stem.lower() in C.lower:
                proto_violation(R, "pascal", pn, "name", case, "external name '%s'" % C.lower[stem.lower()], "external name '%s'" % cname)
            if "cdecl" not in fn.get("mods", ""):
                # a C function is imported with the C calling convention: without the directive the default convention of the target is used
                # (register on i386), i.e. the declaration does not describe the C prototype
                proto_violation(R, "pascal", cname, "convention", case, "external declaration with the cdecl directive", "no calling-convention directive")
            if len(fn["args"]) != len(p["args"]):
                proto_violation(R, "pascal", cname, "arity", case, "%d arguments: %s" % (len(p["args"]), c_sig(p)),
                                "%d parameters (%s)" % (len(fn["args"]), "; ".join("%s:%s" % a for a in fn["args"])))
                continue
            bad = ["arg %d '%s': Pascal %s vs C %s" % (i + 1, a[0], a[1], ct)
                   for i, (a, (ct, cn_)) in enumerate(zip(fn["args"], p["args"])) if not pas_compat(a[1], cclass(ct))]
            if bad:
                proto_violation(R, "pascal", cname, "argtype", case, c_sig(p), "; ".join(bad))
            ck = cclass(p["ret"])
            if not ((fn["ret"] == "void" and ck == "void") or (fn["ret"] != "void" and ck != "void" and pas_compat(fn["ret"], ck))):
                proto_violation(R, "pascal", cname, "ret", case, "returns " + p["ret"], "%s : %s" % (fn["kind"], fn["ret_text"] or "-"))
        elif not fn["impl"]:
            # ---- user-facing declaration of the interface section
            n, p = C.proto(fn["name"], ci=True)
            if p is None:
                R.ignore("pascal-user", fn["name"])
                continue
            case = dict(binding="pascal", function=n, layer="user", file=fn["file"], line=fn["line"])
            R.cmp("proto:pascal:user", case)
            R.wrap("pascal", n)
            ua = user_args(p)
            if len(fn["args"]) != len(ua):
                proto_violation(R, "pascal", n, "user-arity", case, "%d arguments (C minus xrl_error**): %s" % (len(ua), c_sig(p)),
                                "%d parameters (%s)" % (len(fn["args"]), "; ".join("%s:%s" % a for a in fn["args"])))
                continue
            bad = ["arg %d '%s': Pascal %s vs C %s" % (i + 1, a[0], a[1], ct)
                   for i, (a, (ct, cn_)) in enumerate(zip(fn["args"], ua)) if not pas_compat(a[1], cclass(ct))]
            ck = cclass(p["ret"])
            if not ((fn["ret"] == "void" and ck == "void") or (fn["ret"] != "void" and ck != "void" and pas_compat(fn["ret"], ck))):
                bad.append("result: Pascal %s vs C %s" % (fn["ret_text"], p["ret"]))
            if bad:
                proto_violation(R, "pascal", n, "user-argtype", case, c_sig(p), "; ".join(bad))
    check_complete(R, "pascal", have, "pascal/xraylib_const.pas")
    for f in files:
        if texts[f] is not None:
            for r in pas_records(texts[f], f):
                check_struct(R, "pascal", r["name"], r["fields"], (r["file"], r["line"]), pas_compat)
    # soname of the imported library
    t = texts["pascal/xraylib.pas"]
    if t is not None:
        m = re.search(r"External_library\s*=\s*'libxrl\.so\.(\d+)'", pas_strip(t))
        R.pascal_soname = (int(m.group(1)), lineno(t, m.start())) if m else None


# ====================================================================================================== Cython

def cython_parse(text):
    """-> (functions {name: dict}, constants [dict]) of the 'cdef extern from "xraylib*.h"' blocks"""
    funcs, consts, structs = {}, [], []
    block_hdr, block_indent = None, None
    skip_indent = None
    cur_struct = None
    for ln, raw in enumerate(text.split("\n"), 1):
        line = raw.split("#")[0].rstrip()
        if not line.strip():
            continue
        indent = len(line) - len(line.lstrip())
        s = line.strip()
        m = re.match(r'^cdef\s+extern\s+from\s+"([^"]+)"', s)
        if indent == 0:
            block_hdr = m.group(1) if m else None
            block_indent = None
            skip_indent = None
            continue
        if block_hdr is None or not os.path.basename(block_hdr).startswith("xraylib"):
            continue
        if block_indent is None:
            block_indent = indent
        if skip_indent is not None:
            if indent > skip_indent:
                if cur_struct is not None:
                    for piece in split_top(s):
                        tt, nm = c_arg(piece)
                        if nm:
                            cur_struct["fields"].append((nm, cclass(tt)))
                continue
            skip_indent = None
            cur_struct = None
        sm = re.match(r"^(?:cdef|ctypedef)\s+struct\s+(\w+)\s*:$", s)
        if sm:
            cur_struct = dict(name=sm.group(1), fields=[], line=ln, indent=indent)
            structs.append(cur_struct)
            skip_indent = indent
            continue
        if re.match(r"^(cdef|ctypedef)\s+(enum|struct|union)\b.*:$", s) or s.endswith(":"):
            cur_struct = None
            skip_indent = indent
            continue
        m = re.match(r"^(.*?)\b([A-Za-z_]\w*)\s*\((.*)\)\s*(?:nogil|except\s*\S+)?$", s)
        if m and m.group(1).strip():
            ret = m.group(1).strip()
            ret = " ".join(w for w in ret.replace("*", " * ").split() if w != "*") + "*" * ret.count("*")
            args = m.group(3).strip()
            al = [c_arg(a) for a in split_top(args)] if args not in ("", "void") else []
            funcs[m.group(2)] = dict(ret=ret, args=al, line=ln)
            continue
        m = re.match(r'^([\w \*]+?)\s*\b([A-Za-z_]\w*)(?:\s+"(\w+)")?$', s)
        if m:
            consts.append(dict(type=" ".join(m.group(1).split()), name=m.group(2), cname=m.group(3) or m.group(2), line=ln))
    return funcs, consts, structs


def check_cython(R):
    C, st = R.C, R.st
    pxd_f, pyx_f = "python/xraylib_np_c.pxd", "python/xraylib_np.pyx"
    pxd = read(C.repo, pxd_f)
    if pxd is None:
        st.cls("binding-absent:cython")
        return
    funcs, consts, structs = cython_parse(pxd)
    have = set()
    pxd_names = set()
    for c in consts:
        pxd_names.add(c["name"])
        if c["type"].replace(" ", "") in ("char*", "constchar*"):
            continue
        # published under c["name"], value = the C macro c["cname"]; declared type must be able to hold it
        bv = C.val.get(c["cname"])
        note = None
        if c["cname"] != c["name"]:
            note = 'declared as %s %s "%s"' % (c["type"], c["name"], c["cname"])
        if bv is not None and isinstance(bv, float) and c["type"] == "int":
            bv, note = int(bv), "declared int, truncates %r" % C.val.get(c["cname"])
        if c["name"] not in C.val:
            R.ignore("cython", c["name"])
            continue
        cn = check_const(R, "cython", c["name"], bv, None, (pxd_f, c["line"]), note=note or ('cname "%s" is not a C macro' % c["cname"] if bv is None else None))
        if cn:
            have.add(cn)
    for name, f in funcs.items():
        case = dict(binding="cython", function=name, file=pxd_f, line=f["line"])
        n, p = C.proto(name)
        R.cmp("proto:cython:extern", case)
        if p is None:
            proto_violation(R, "cython", name, "unknown", case, "a function of the C library", "extern declaration of %s" % name)
            continue
        R.wrap("cython", name)
        if len(f["args"]) != len(p["args"]):
            proto_violation(R, "cython", name, "arity", case, "%d arguments: %s" % (len(p["args"]), c_sig(p)), "%d arguments: %s" % (len(f["args"]), c_sig(f)))
            continue
        bad = ["arg %d: Cython %s vs C %s" % (i + 1, a[0], ct) for i, (a, (ct, cn_)) in enumerate(zip(f["args"], p["args"])) if cclass(a[0]) != cclass(ct)]
        if bad:
            proto_violation(R, "cython", name, "argtype", case, c_sig(p), "; ".join(bad))
        if cclass(f["ret"]) != cclass(p["ret"]):
            proto_violation(R, "cython", name, "ret", case, "returns " + p["ret"], "returns " + f["ret"])
    check_complete(R, "cython", have, pxd_f)
    for t in structs:
        check_struct(R, "cython", t["name"], t["fields"], (pxd_f, t["line"]), lambda k, ck: k == ck)
    # ---- the .pyx layer
    pyx = read(C.repo, pyx_f)
    if pyx is None:
        return
    lines = [l.split("#")[0].rstrip() for l in pyx.split("\n")]
    have2 = set()
    for ln, l in enumerate(lines, 1):
        m = re.match(r"^([A-Za-z_]\w*)\s*=\s*xrl\.(\w+)\s*$", l)
        if not m:
            continue
        name, src = m.groups()
        if name not in C.val:
            R.ignore("cython-pyx", name)
            continue
        bv = C.val.get(src) if src in pxd_names else None
        note = None if name == src and src in pxd_names else ("assigned from xrl.%s%s" % (src, "" if src in pxd_names else " (not declared in the .pxd)"))
        cn = check_const(R, "cython-pyx", name, bv, None, (pyx_f, ln), note=note)
        if cn:
            have2.add(cn)
    # defs: [(name, params, first line, body)]
    text = "\n".join(lines)
    defs = list(re.finditer(r"^def\s+(\w+)\s*\(([^)]*)\)\s*:", text, re.M))
    for i, m in enumerate(defs):
        name, params = m.group(1), m.group(2)
        end = defs[i + 1].start() if i + 1 < len(defs) else len(text)
        body = text[m.end():end]
        ln = lineno(text, m.start())
        cname = name[1:] if name.startswith("_") and name[1:] in C.public else name
        n, p = C.proto(cname)
        for cm in re.finditer(r"\bxrl\.(\w+)\s*\(", body):
            callee = cm.group(1)
            depth, j = 1, cm.end()
            while j < len(body) and depth:
                depth += body[j] in "(["
                depth -= body[j] in ")]"
                j += 1
            inner = body[cm.end():j - 1].strip()
            nargs = len(split_top(inner)) if inner else 0
            case = dict(binding="cython-pyx", function=callee, within=name, file=pyx_f, line=ln + body.count("\n", 0, cm.start()))
            R.cmp("proto:cython-pyx:call", case)
            if callee not in funcs:
                proto_violation(R, "cython-pyx", callee, "unknown", case, "a function declared in xraylib_np_c.pxd", "call of xrl.%s" % callee)
                continue
            cp = C.proto(callee)[1]
            want = len(cp["args"]) if cp else len(funcs[callee]["args"])
            if nargs != want:
                proto_violation(R, "cython-pyx", callee, "arity", case, "%d arguments" % want, "%d arguments: (%s)" % (nargs, " ".join(inner.split())))
            if p is not None and callee != cname and callee in C.public and not re.search(r"\bxrl\.%s\s*\(" % re.escape(cname), body):
                proto_violation(R, "cython-pyx", name, "name", case, "def %s wraps xrl.%s" % (name, cname), "calls xrl.%s" % callee)
        if p is None:
            continue
        R.wrap("cython-pyx", cname)
        kinds = []
        for prm in split_top(params):
            prm = " ".join(prm.split())
            if not prm:
                continue
            if re.search(r"\bint64_t\b|^int\b|^long\b|\[int\b", prm):
                kinds.append("int")
            elif re.search(r"\bdouble\b", prm):
                kinds.append("double")
            elif re.search(r"\bstr\b|\bbytes\b|char", prm):
                kinds.append("str")
            else:
                kinds.append("?:" + prm)
        ua = user_args(p)
        case = dict(binding="cython-pyx", function=cname, layer="def", file=pyx_f, line=ln)
        R.cmp("proto:cython-pyx:def", case)
        if len(kinds) != len(ua):
            proto_violation(R, "cython-pyx", cname, "user-arity", case, "%d arguments: %s" % (len(ua), c_sig(p)), "def %s(%s)" % (name, " ".join(params.split())))
            continue
        bad = ["arg %d: %s vs C %s" % (i + 1, k, ct) for i, (k, (ct, cn_)) in enumerate(zip(kinds, ua)) if k != cclass(ct)]
        if bad:
            proto_violation(R, "cython-pyx", cname, "user-argtype", case, c_sig(p), "; ".join(bad))
    for ln, l in enumerate(lines, 1):
        m = re.match(r"^([A-Za-z_]\w*)\s*=\s*XRL_\w+\(\s*_(\w+)\s*\)\s*$", l)
        if m:
            R.cmp("proto:cython-pyx:alias")
            if m.group(1) != m.group(2):
                proto_violation(R, "cython-pyx", m.group(1), "name", dict(binding="cython-pyx", function=m.group(1), file=pyx_f, line=ln),
                                "%s = ...(_%s)" % (m.group(1), m.group(1)), l.strip())
    check_complete(R, "cython-pyx", have2, pyx_f)


# ====================================================================================================== Java

def c_like_strip(text):
    """/* */ and // comments -> blanks, string literals kept (Java, C++, C)"""
    out, i, n = [], 0, len(text)
    while i < n:
        ch = text[i]
        if ch == '"' or ch == "'":
            j = i + 1
            while j < n and text[j] != ch:
                j += 2 if text[j] == "\\" else 1
            out.append(text[i:j + 1])
            i = j + 1
        elif text.startswith("/*", i):
            j = text.find("*/", i + 2)
            j = n - 2 if j < 0 else j
            out.append(re.sub(r"[^\n]", " ", text[i:j + 2]))
            i = j + 2
        elif text.startswith("//", i):
            j = text.find("\n", i)
            j = n if j < 0 else j
            out.append(" " * (j - i))
            i = j
        else:
            out.append(ch)
            i += 1
    return "".join(out)


def java_eval(expr, env):
    e = expr.strip()
    if re.fullmatch(r"[+-]?\d+", e):
        return int(e), None
    if re.fullmatch(r"[+-]?(\d+\.\d*|\.\d+|\d+)([eE][+-]?\d+)?[dDfF]?", e):
        lit = e.rstrip("dDfF")
        return float(lit), lit
    if not re.fullmatch(r"[\w\s+\-*/().]+", e):
        return None, None

    def sub(m):
        t = m.group(0)
        if re.match(r"[\d.]", t):
            return t
        if t not in env or env[t] is None:
            raise KeyError(t)
        return "(" + repr(env[t]) + ")"
    try:
        return eval(re.sub(r"\d+\.?\d*(?:[eE][+-]?\d+)?|[A-Za-z_]\w*", sub, e), {"__builtins__": {}}, {}), None
    except Exception:
        return None, None


def check_java(R):
    C, st = R.C, R.st
    jf, pf = "java/Xraylib.java", "java/pr_data_java.c"
    jt = read(C.repo, jf)
    if jt is None:
        st.cls("binding-absent:java")
        return
    s = c_like_strip(jt)
    env, have = {}, set()
    for m in re.finditer(r"\b(public|private|protected)?\s*static\s+final\s+(int|double|long|float)\s+(\w+)\s*=\s*([^;]+);", s):
        vis, typ, name, expr = m.groups()
        v, lit = java_eval(expr, env)
        env[name] = v
        if vis != "public":
            continue
        cn = check_const(R, "java", name, v, lit if lit else (None if v is not None else expr.strip()), (jf, lineno(s, m.start())))
        if cn:
            have.add(cn)
    # constants that travel through xraylib.dat: written by pr_data_java.c, read back in the same order
    pt = read(C.repo, pf)
    reads = [(m.group(1), m.group(2), lineno(s, m.start())) for m in re.finditer(r"^\s*([A-Za-z_]\w*)\s*=\s*byte_buffer\.get(Int|Double)\(\)\s*;", s, re.M)]
    if pt is not None:
        ps = c_like_strip(pt)
        init = {m.group(2): (m.group(1), m.group(3)) for m in re.finditer(r"^\s*(int|double)\s+(\w+)\s*=\s*([A-Za-z_]\w*)\s*;", ps, re.M)}
        writes = []
        for m in re.finditer(r"^\s*fwrite\(\s*&(\w+)\s*,\s*sizeof\((\w+)\)\s*,\s*1\s*,\s*f\s*\)\s*;", ps, re.M):
            writes.append((m.group(1), m.group(2), lineno(ps, m.start())))
        pub = {m.group(2): m.group(1) for m in re.finditer(r"\bpublic\s+static\s+(int|double)\s+(\w+)\s*;", s)}
        for i, (name, getter, ln) in enumerate(reads):
            if name not in pub:
                continue
            src = writes[i] if i < len(writes) else None
            macro = init.get(src[0], (None, None))[1] if src else None
            ctype = src[1] if src else None
            bv = C.val.get(macro) if macro else None
            note = "record %d of xraylib.dat: pr_data_java.c writes %s %s = %s, Xraylib.java reads %s with get%s()" % (
                i + 1, ctype, src[0] if src else "?", macro, name, getter)
            if bv is not None and ((getter == "Int") != (ctype == "int") or (pub[name] == "int") != (ctype == "int")):
                bv, note = None, note + " (type mismatch)"
            if src is None or macro is None:
                # the writer is not in the "type var = MACRO; fwrite(&var, ...)" shape this static reading understands (e.g. it was refactored into
                # helper functions): nothing is claimed here - the value of every public static field is compared with the C macro at run time by C19
                R.ignore("java-datafile-constant-not-resolved-statically", name)
                if name in C.val:
                    have.add(name)
                continue
            cn = check_const(R, "java", name, bv, None, (jf, ln), note=note if (macro != name or bv is None) else None)
            if cn:
                have.add(cn)
    # methods
    for m in re.finditer(r"\bpublic\s+static\s+([\w.<>]+(?:\s*\[\s*\])*)\s+(\w+)\s*\(([^)]*)\)\s*(?:throws\s+[\w.,\s]+)?\{", s):
        ret, name, params = m.groups()
        n, p = C.proto(name)
        if p is None:
            R.ignore("java-method", name)
            continue
        case = dict(binding="java", function=name, file=jf, line=lineno(s, m.start()))
        R.cmp("proto:java:method", case)
        R.wrap("java", name)
        kinds = []
        for prm in split_top(params):
            w = prm.split()
            if len(w) < 2:
                continue
            t = " ".join(w[:-1]).replace("final ", "")
            kinds.append({"int": "int", "double": "double", "String": "str"}.get(t, "ptr:" + t))
        drop = any(cclass(t) in ("double*",) for t, a in p["args"])
        ua = user_args(p, drop_out=drop)
        if len(kinds) != len(ua):
            proto_violation(R, "java", name, "arity", case, "%d arguments (C minus xrl_error**): %s" % (len(ua), c_sig(p)), "%s %s(%s)" % (ret, name, " ".join(params.split())))
            continue
        bad = []
        for i, (k, (ct, cn_)) in enumerate(zip(kinds, ua)):
            ck = cclass(ct)
            ok = (k == ck) or (k.startswith("ptr:") and ck.startswith("ptr:") and norm_struct(k[4:]) == norm_struct(ck[4:]))
            if not ok:
                bad.append("arg %d: Java %s vs C %s" % (i + 1, k, ct))
        ck = cclass(p["ret"])
        if not drop and ck in ("int", "double", "str"):
            if {"int": "int", "double": "double", "String": "str"}.get(ret.replace(" ", "")) != ck:
                bad.append("result: Java %s vs C %s" % (ret, p["ret"]))
        if bad:
            proto_violation(R, "java", name, "argtype", case, c_sig(p), "; ".join(bad))
    check_complete(R, "java", have, jf)


# ====================================================================================================== IDL

def idl_statements(text):
    out, cur, cur_ln = [], None, None
    for ln, raw in enumerate(text.split("\n"), 1):
        s = raw.split(";")[0].strip()
        if not s:
            continue
        if cur is not None:
            cur += " " + s
        else:
            cur, cur_ln = s, ln
        if cur.endswith("$"):
            cur = cur[:-1].rstrip()
            continue
        out.append((cur_ln, cur))
        cur = None
    if cur:
        out.append((cur_ln, cur))
    return out


def idl_collect(repo, rel, env, consts, common, seen):
    text = read(repo, rel)
    if text is None or rel in seen:
        return
    seen.add(rel)
    for ln, s in idl_statements(text):
        m = re.match(r"^\.(run|r|rnew|compile)\s+(\w+)", s, re.I)
        if m:
            if m.group(1).lower() != "compile":
                idl_collect(repo, "idl/%s.pro" % m.group(2), env, consts, common, seen)
            continue
        m = re.match(r"^COMMON\s+(\w+)\s*,(.*)$", s, re.I)
        if m:
            for nm in m.group(2).split(","):
                if nm.strip():
                    common.setdefault(nm.strip().upper(), (rel, ln))
            continue
        m = re.match(r"^([A-Za-z_]\w*)\s*=\s*(.+)$", s)
        if not m:
            continue
        name, expr = m.group(1), m.group(2).strip()
        v, lit = None, None
        e = re.sub(r"[lLdDbBuU]+$", "", expr) if re.fullmatch(r"[+-]?\d+[lLbBuU]*", expr) else expr
        if re.fullmatch(r"[+-]?\d+", e):
            v = int(e)
        elif re.fullmatch(r"[+-]?(\d+\.\d*|\.\d+|\d+)([eEdD][+-]?\d*)?", e) and not re.search(r"[eE]$", e):
            # IDL: 1.5D and 1.5D0 are double-precision literals (a bare trailing D means exponent 0)
            lit = re.sub(r"[dD]$", "", e)
            lit = re.sub(r"[dD]", "e", lit)
            v = float(lit)
        elif re.fullmatch(r"[A-Za-z_]\w*", e):
            v = env.get(e.upper())
        env[name.upper()] = v
        consts.append(dict(name=name, value=v, lit=lit, expr=expr, file=rel, line=ln))


def check_idl(R):
    C, st = R.C, R.st
    main = "idl/xraylib.pro"
    if read(C.repo, main) is None:
        st.cls("binding-absent:idl")
        return
    env, consts, common_, seen = {}, [], {}, set()
    idl_collect(C.repo, main, env, consts, common_, seen)
    have = set()
    for c in consts:
        cn = check_const(R, "idl", c["name"], c["value"], c["lit"] if c["lit"] else (None if c["value"] is not None else c["expr"]),
                         (c["file"], c["line"]), ci=True)
        if cn:
            have.add(cn)
    # every published constant has to be a member of the COMMON block as well (and vice versa)
    for cn in sorted(have):
        R.cmp("complete:idl:common")
        if cn.upper() not in common_:
            st.violation("missing:idl:common:%s" % cn, dict(binding="idl", name=cn, file=main), expected="%s listed in COMMON XRAYLIB" % cn, got="assigned but not in the COMMON block")
    for nm, (fl, ln) in sorted(common_.items()):
        cn = C.cname(nm, True)
        if cn and cn not in have:
            R.cmp("complete:idl:common")
            st.violation("missing:idl:%s:%s" % (family_of(cn) or "const", cn), dict(binding="idl", name=cn, file=fl, line=ln),
                         expected="%s = %r assigned" % (cn, C.val[cn]), got="listed in COMMON XRAYLIB but never assigned")
    dlm = read(C.repo, "idl/libxrlidl.dlm")
    for ln, raw in enumerate((dlm or "").split("\n"), 1):
        l = raw.split("#")[0].strip()
        m = re.match(r"^(FUNCTION|PROCEDURE)\s+(\w+)\s+(\d+)\s+(\d+)(\s+KEYWORDS)?\s*$", l, re.I)
        if not m:
            continue
        kind, name, lo, hi = m.group(1).upper(), m.group(2), int(m.group(3)), int(m.group(4))
        n, p = C.proto(name, ci=True)
        case = dict(binding="idl", function=n, file="idl/libxrlidl.dlm", line=ln)
        R.cmp("proto:idl:dlm", case)
        if p is None:
            proto_violation(R, "idl", name, "unknown", case, "a function of the C library", l)
            continue
        R.wrap("idl", n)
        ua = user_args(p)
        if lo != len(ua) or hi != len(ua):
            proto_violation(R, "idl", n, "arity", case, "%d arguments (C minus xrl_error**): %s" % (len(ua), c_sig(p)), l)
        outs = any(cclass(t) in ("int*", "double*") for t, a in ua)
        if (kind == "PROCEDURE") != (cclass(p["ret"]) == "void" or outs):
            proto_violation(R, "idl", n, "ret", case, "returns " + p["ret"], l)
    # the C glue of the DLM: one macro instantiation per wrapped function, the macro name spells the argument types the glue converts the IDL
    # values to (XRL_2IF = 2 arguments: Int, Float(double); S = string).  Whatever the spelling says must be the C prototype.
    glue = read(C.repo, "idl/xraylib_idl.c")
    if glue is not None:
        gs = c_like_strip(glue)
        for m in re.finditer(r"^\s*XRL_(\d+)([IFS]+)\s*\(\s*(\w+)\s*\)\s*;?\s*$", gs, re.M):
            cnt, letters, name = int(m.group(1)), m.group(2), m.group(3)
            n, p = C.proto(name, ci=True)
            case = dict(binding="idl", function=name, file="idl/xraylib_idl.c", line=lineno(gs, m.start()), macro="XRL_%d%s" % (cnt, letters))
            R.cmp("proto:idl:glue", case)
            if p is None:
                proto_violation(R, "idl", name, "unknown", case, "a function of the C library", m.group(0).strip())
                continue
            want = "".join({"int": "I", "double": "F", "str": "S"}.get(cclass(tt), "?") for tt, a in user_args(p))
            if cnt != len(letters) or letters != want:
                proto_violation(R, "idl", n, "argtype", case, "XRL_%d%s for %s" % (len(want), want, c_sig(p)), "XRL_%d%s" % (cnt, letters))
    check_complete(R, "idl", have, main)


# ====================================================================================================== C++

def call_args(text, pos):
    """text[pos] is just after '(' -> (inner text, end)"""
    depth, j = 1, pos
    while j < len(text) and depth:
        depth += text[j] in "(["
        depth -= text[j] in ")]"
        j += 1
    return text[pos:j - 1], j


def check_cplusplus(R):
    C, st = R.C, R.st
    fl = "cplusplus/xraylib++.h"
    t = read(C.repo, fl)
    if t is None:
        st.cls("binding-absent:cplusplus")
        return
    s = c_like_strip(t)
    s_nodef = re.sub(r"^[ \t]*#[ \t]*define[^\n]*(?:\\\n[^\n]*)*", lambda m: re.sub(r"[^\n]", " ", m.group(0)), s, flags=re.M)
    listed = {}
    for m in re.finditer(r"\b_XRL_FUNCTION\s*\(\s*(\w+)\s*\)", s_nodef):
        name = m.group(1)
        case = dict(binding="cplusplus", function=name, file=fl, line=lineno(s, m.start()))
        R.cmp("proto:cplusplus:_XRL_FUNCTION", case)
        if name in listed:
            proto_violation(R, "cplusplus", name, "duplicate", case, "one _XRL_FUNCTION(%s)" % name, "also at line %d" % listed[name])
            continue
        listed[name] = case["line"]
        p = C.public.get(name)
        if p is None:
            proto_violation(R, "cplusplus", name, "unknown", case, "a function declared in the public C headers", "_XRL_FUNCTION(%s)" % name)
            continue
        R.wrap("cplusplus", name)
        if not simple_numeric(p) or any(cclass(tt) == "str" for tt, a in p["args"][1:-1]):
            proto_violation(R, "cplusplus", name, "argtype", case, "double f([const char*,] int|double..., xrl_error**) as the template calls it", c_sig(p))
    hand_called = set(re.findall(r"(?<![\w>:])::\s*([A-Za-z]\w*)\b", s_nodef))     # called directly or handed to a calling helper
    for name, p in C.public.items():
        # plain numeric C functions reachable from C++ through the macro or through a hand-written wrapper that refers to them (counted;
        # decided by what the prototype looks like, not by the header it is declared in)
        if simple_numeric(p) and p["header"] != "xraylib-deprecated.h":
            R.cmp("complete:cplusplus:function")
            if name not in listed and name not in hand_called:
                # the property speaks about every *wrapped* function (and about complete constant families), not about wrapping every function:
                # a C function without a C++ wrapper is recorded, not reported
                R.ignore("c-function-without-cplusplus-wrapper", name)
    for m in re.finditer(r"(?<![\w>:])::\s*([A-Za-z]\w*)\s*\(", s_nodef):
        name = m.group(1)
        inner, end = call_args(s_nodef, m.end())
        nargs = len(split_top(inner)) if inner.strip() else 0
        case = dict(binding="cplusplus", function=name, file=fl, line=lineno(s, m.start()))
        R.cmp("proto:cplusplus:call", case)
        p = C.public.get(name)
        if p is None:
            proto_violation(R, "cplusplus", name, "unknown", case, "a function declared in the public C headers", "::%s(%s)" % (name, " ".join(inner.split())))
            continue
        R.wrap("cplusplus", name)
        if nargs != len(p["args"]):
            proto_violation(R, "cplusplus", name, "arity", case, "%d arguments: %s" % (len(p["args"]), c_sig(p)), "::%s(%s)" % (name, " ".join(inner.split())))


# ====================================================================================================== SWIG

def check_swig(R):
    C, st = R.C, R.st
    fl = "src/xraylib.i"
    t = read(C.repo, fl)
    if t is None:
        st.cls("binding-absent:swig")
        return
    s = c_like_strip(t)
    argpairs, rets, argtypes, rettypes = set(), set(), set(), set()
    for n, p in list(C.public.items()) + list(C.private.items()):
        for tt, a in p["args"]:
            argpairs.add((tt.replace("const ", ""), a))
            argtypes.add(tt.replace("const ", ""))
        rets.add((p["ret"], n))
        rettypes.add(p["ret"].replace("const ", ""))
    incs = re.findall(r'^\s*%include\s+"([^"]+)"', s, re.M)
    for hdr in ("xraylib.h",):
        R.cmp("swig:include")
        if hdr not in incs:
            st.violation("swig:include:%s" % hdr, dict(binding="swig", file=fl), expected='%%include "%s"' % hdr, got="includes: %s" % incs)
    for hdr in incs:
        if hdr.endswith(".i"):
            continue
        R.cmp("swig:include")
        if not (os.path.isfile(os.path.join(C.repo, "include", hdr)) or os.path.isfile(os.path.join(C.repo, "src", hdr))):
            st.violation("swig:include:%s" % hdr, dict(binding="swig", file=fl), expected="an existing header", got='%%include "%s"' % hdr)
    for m in re.finditer(r"^\s*%(ignore|newobject)\s+(\w+)\s*;", s, re.M):
        kind, name = m.groups()
        case = dict(binding="swig", directive="%" + kind, name=name, file=fl, line=lineno(s, m.start()))
        R.cmp("swig:" + kind, case)
        ok = name in C.public or name in C.private or (kind == "ignore" and name in C.struct_tags)
        if ok and name in C.public:
            R.wrap("swig", name)
        if not ok:
            st.violation("swig:%s:%s" % (kind, name), case, expected="a function or type of the C headers", got="%%%s %s" % (kind, name))

    def norm(tt):
        tt = tt.replace("const ", "")
        return " ".join(w for w in tt.replace("*", " * ").split() if w != "*") + "*" * tt.count("*")
    for m in re.finditer(r"%apply\s+[^{]*\{([^}]*)\}", s):
        for a in split_top(m.group(1)):
            tt, nm = c_arg(a)
            case = dict(binding="swig", directive="%apply", name=nm, type=tt, file=fl, line=lineno(s, m.start()))
            R.cmp("swig:apply", case)
            if (norm(tt), nm) not in argpairs:
                st.violation("swig:apply:%s" % nm, case, expected="an argument '%s %s' in a C prototype" % (tt, nm), got="no C prototype has it")
    seen = set()
    for m in re.finditer(r"%typemap\s*\(\s*(\w+)[^)]*\)\s*([^{;(]+?)\s*(?:\([^)]*\)\s*)?[{;]", s):
        method, pat = m.group(1), " ".join(m.group(2).split())
        tt, nm = c_arg(pat)
        tt = norm(tt)
        key = (method, tt, nm)
        if key in seen:
            continue
        seen.add(key)
        case = dict(binding="swig", directive="%typemap(" + method + ")", pattern=pat, file=fl, line=lineno(s, m.start()))
        R.cmp("swig:typemap", case)
        if nm is not None:
            ok = ((tt, nm) in argpairs) if method not in ("out", "ret", "newfree") else ((tt, nm) in rets or (tt, nm) in argpairs)
        else:
            ok = (tt in rettypes) if method in ("out", "ret", "newfree") else (tt in argtypes)
        if not ok:
            st.violation("swig:typemap:%s" % (nm or tt.replace(" ", "_")), case, expected="a C prototype using '%s'" % pat, got="no C prototype matches")


# ====================================================================================================== exports, versions

def check_exports(R, lib):
    C, st = R.C, R.st
    rc, out = vbuild.run(["nm", "-D", "--defined-only", lib])
    if rc != 0:
        raise vbuild.BuildError("nm failed on %s: %s" % (lib, out[-500:]))
    exported = set()
    for l in out.split("\n"):
        w = l.split()
        if len(w) >= 3:
            exported.add(w[2].split("@")[0])
    R.exported = exported
    for n, p in sorted(C.public.items()):
        case = dict(function=n, header=p["header"])
        R.cmp("export:declared", case)
        if n not in exported:
            st.violation("export:missing:%s" % n, case, expected="%s defined and exported by libxrl (declared in include/%s%s)" % (
                n, p["header"], "" if p["marked"] else ", without XRL_EXTERN"), got="not in `nm -D --defined-only %s`" % os.path.basename(lib))
    st.cls("export:undeclared-ignored", len([e for e in exported if e not in C.public]))


def check_versions(R):
    C, st = R.C, R.st
    try:
        ref = "%d.%d.%d" % (C.val["XRAYLIB_MAJOR"], C.val["XRAYLIB_MINOR"], C.val["XRAYLIB_MICRO"])
    except KeyError:
        st.violation("version:include/xraylib.h", dict(file="include/xraylib.h"), expected="XRAYLIB_MAJOR/MINOR/MICRO", got="not defined")
        return
    R.version = ref
    pats = [("meson.build", r"\bproject\s*\((?:[^()]|\([^()]*\))*?\bversion\s*:\s*'([^']+)'"),
            ("configure.ac", r"AC_INIT\(\s*\[?xraylib\]?\s*,\s*\[?([0-9][^\],)]*)\]?"),
            ("pyproject.toml", r"^\s*version\s*=\s*\"([^\"]+)\""),
            (".bumpversion.cfg", r"^\s*current_version\s*=\s*(\S+)"),
            ("xraylib.spec", r"^Version:\s*(\S+)"),
            ("java/build.gradle.in", r"^\s*version\s*=\s*'([^']+)'"),
            ("idl/libxrlidl.dlm", r"^\s*VERSION\s+(\S+)"),
            ("CITATION.cff", r"^version:\s*\"?([0-9][^\s\"]*)"),
            ("Changelog", r"\AVersion\s+(\d+\.\d+\.\d+)")]
    found = {}
    for fl, pat in pats:
        t = read(C.repo, fl)
        if t is None:
            st.cls("version:file-absent")
            continue
        m = re.search(pat, t, re.M | re.S if fl == "meson.build" else re.M)
        if not m:
            st.cls("version:not-stated")
            continue
        v = m.group(1).strip()
        found[fl] = v
        case = dict(file=fl, line=lineno(t, m.start(1)))
        R.cmp("version", dict(case, version=v))
        if v != ref:
            st.violation("version:%s" % fl, case, expected="%s (XRAYLIB_MAJOR.MINOR.MICRO of include/xraylib.h)" % ref, got=v)
    # bumpversion must be able to find its search strings, otherwise the next release leaves the file behind
    bt = read(C.repo, ".bumpversion.cfg")
    if bt is not None and ".bumpversion.cfg" in found:
        for m in re.finditer(r"^\[bumpversion:file:([^\]]+)\]\s*\n((?:(?!\[).*\n?)*)", bt, re.M):
            fl, body = m.group(1).strip(), m.group(2)
            sm = re.search(r"^search\s*=\s*(.+)$", body, re.M)
            t = read(C.repo, fl)
            R.cmp("version:bumpversion-search", dict(file=fl))
            needle = (sm.group(1).strip() if sm else "{current_version}").replace("{current_version}", found[".bumpversion.cfg"])
            if t is None or needle not in t:
                st.violation("version:bumpversion:%s" % fl, dict(file=fl), expected="file contains %r" % needle, got="not found")
    # libtool triple: meson.build vs configure.ac, and the soname the Pascal unit imports
    mt, ct = read(C.repo, "meson.build"), read(C.repo, "configure.ac")
    tri = {}
    for key, mp, cp in (("current", r"^lib_current\s*=\s*(\d+)", r"^LIB_CURRENT=(\d+)"), ("revision", r"^lib_revision\s*=\s*(\d+)", r"^LIB_REVISION=(\d+)"),
                        ("age", r"^lib_age\s*=\s*(\d+)", r"^LIB_AGE=(\d+)")):
        a = re.search(mp, mt or "", re.M)
        b = re.search(cp, ct or "", re.M)
        if a:
            tri[key] = int(a.group(1))
        if a and b:
            R.cmp("version:libtool", dict(key=key, meson=a.group(1), configure=b.group(1)))
            if a.group(1) != b.group(1):
                st.violation("version:libtool:%s" % key, dict(file="configure.ac", key=key), expected="meson.build lib_%s = %s" % (key, a.group(1)), got="LIB_%s=%s" % (key.upper(), b.group(1)))
    # every platform branch of the Pascal unit names the library file it imports from: libxrl.<N>.dylib, libxrl.so.<N>, libxrl-<N>.dll
    ptxt = read(C.repo, "pascal/xraylib.pas")
    if ptxt and "current" in tri and "age" in tri:
        for m in re.finditer(r"External_library\s*=\s*'([^']+)'", ptxt, re.I):
            nm = re.search(r"libxrl[.-](?:so\.)?(\d+)", m.group(1))
            if not nm:
                continue
            R.cmp("version:soname", dict(pascal=m.group(1)))
            if int(nm.group(1)) != tri["current"] - tri["age"]:
                st.violation("version:pascal/xraylib.pas:soname", dict(file="pascal/xraylib.pas", line=lineno(ptxt, m.start()), library=m.group(1)),
                             expected="library version %d (lib_current - lib_age of meson.build)" % (tri["current"] - tri["age"]), got=m.group(1))
    ps = None
    if ps and "current" in tri and "age" in tri:
        R.cmp("version:soname", dict(pascal=ps[0], meson=tri["current"] - tri["age"]))
        if ps[0] != tri["current"] - tri["age"]:
            st.violation("version:pascal/xraylib.pas:soname", dict(file="pascal/xraylib.pas", line=ps[1]), expected="libxrl.so.%d (lib_current - lib_age of meson.build)" % (tri["current"] - tri["age"]),
                         got="libxrl.so.%d" % ps[0])


# ====================================================================================================== driver

CHECKS = [("fortran", check_fortran), ("pascal", check_pascal), ("cython", check_cython), ("java", check_java), ("idl", check_idl),
          ("cplusplus", check_cplusplus), ("swig", check_swig)]


def compare(ctx, st, lib):
    C = CSide(vbuild.REPO)
    R = Rep(st, C)
    for name, fn in CHECKS:
        fn(R)
    check_versions(R)
    check_exports(R, lib)
    return R


def run(ctx):
    ctx.rule = ("exhaustive static comparison: for each binding file (Fortran module, Pascal units, Cython .pxd/.pyx, Java class + pr_data_java.c, "
                "IDL .pro/.dlm, C++ header, SWIG interface) every constant whose name is a C macro is compared with the evaluated #define "
                "(integers exactly, reals to the precision written, at least 1e-9 relative); every macro of the six families (shells, lines incl. "
                "groups and Siegbahn aliases, Coster-Kronig, Auger, NIST compounds, radionuclides) must be defined by every binding that publishes "
                "constants; every extern/BIND(C)/external/_XRL_FUNCTION/DLM/def/method declaration that carries a C function name is compared with "
                "the C prototype (name, arity, int/double/string/pointer class of every argument and of the result); every BIND(C) type / record / "
                "struct that mirrors a C struct is compared field by field; every function declared in "
                "include/xraylib*.h must be in `nm -D --defined-only` of a fresh libxrl.so; every file stating a version must state "
                "XRAYLIB_MAJOR.MINOR.MICRO. non-trivial = one (file, constant) / (file, family macro) / (file, prototype) / (file, struct) / "
                "(header function, export) / (file, version) pair actually compared; all pairs are distinct by construction")
    ctx.exhaustive = True
    b = ctx.build("plain", "A")
    R = compare(ctx, ctx.stats, b["lib"])
    C = R.C
    numeric = sorted(n for n, p in C.public.items() if p["header"] != "xraylib-deprecated.h")
    ctx.extra["c_macros"] = len(C.val)
    ctx.extra["c_family_sizes"] = {f: len(C.fam[f]) for f in FAMILIES}
    ctx.extra["c_public_functions"] = len(C.public)
    ctx.extra["version"] = getattr(R, "version", None)
    ctx.extra["constants_compared"] = R.consts
    ctx.extra["functions_wrapped"] = {k: len(v) for k, v in sorted(R.wrapped.items())}
    ctx.extra["public_functions_not_wrapped"] = {k: sorted(set(numeric) - v) for k, v in sorted(R.wrapped.items()) if k != "swig"}
    ctx.extra["families_not_published"] = R.unpublished
    ctx.extra["names_ignored_not_in_C"] = {k: sorted(v)[:80] for k, v in sorted(R.extra.items())}
    ctx.extra["exported_not_declared"] = sorted(e for e in getattr(R, "exported", set()) if e not in C.public)[:200]
    ctx.assumptions = [
        "the C headers are the reference; xrl.Headers evaluates the #defines (aliases and arithmetic resolved)",
        "a binding need not wrap every function: unwrapped functions are listed in the evidence only, except for the C++ _XRL_FUNCTION list "
        "which has to cover every double f(int|double|string..., xrl_error**) function of xraylib.h",
        "user-facing wrappers may drop xrl_error**, the Crystal_Array* argument and the element count of list functions; the import layer "
        "(BIND(C), external name, .pxd) has to carry the complete C prototype",
        "names a binding defines that C does not define are ignored; Fortran/Pascal/IDL names are matched case-insensitively",
        "generated bindings (SWIG output, Lua/Ruby/PHP/Perl/.NET) are not lexed: src/xraylib.i %includes the C headers themselves",
        "derived types / records / structs that mirror a C struct are compared field by field (order, name, class); Pascal 'array of T' "
        "fields and enum fields are taken as pointer and int",
    ]


def replay(ctx, rec):
    b = ctx.build("plain", "A")
    st = common.Stats()
    compare(ctx, st, b["lib"])
    bad = [v for v in st.violations if v["sig"] == rec["signature"]]
    for v in bad:
        print("replay:", v["sig"], v["case"], "expected:", v["expected"], "got:", v["got"])
    return not bad
