"""Worker of C14: Hypothesis rule-based state machine over user crystal arrays, compared with a model dictionary after every step.
Runs as its own process (optionally under LD_PRELOAD=libasan with a sanitized library); writes a pickled Stats to <out>.
Every step is appended to <steplog> *before* it is executed, so a sanitizer abort still leaves the exact history behind."""
import ctypes, os, pickle, sys, tempfile
sys.path.insert(0, os.path.join(os.path.dirname(os.path.abspath(__file__)), "..", "lib"))
sys.path.insert(0, os.path.dirname(os.path.abspath(__file__)))
from ctypes import c_int, c_void_p, byref, POINTER, cast
import hypothesis
from hypothesis import strategies as hs, settings, seed, HealthCheck, Phase
from hypothesis.stateful import RuleBasedStateMachine, rule, invariant, initialize, precondition
import xrl, common
from common import Stats

lib_path, src, seed_value, n_examples, n_steps, out_path, steplog_path = sys.argv[1:8]
seed_value, n_examples, n_steps = int(seed_value), int(n_examples), int(n_steps)
H = xrl.Headers(src)
L = xrl.Lib(lib_path, H)
ST = Stats()
STEPLOG = open(steplog_path, "w")
TMPDIR = tempfile.mkdtemp(prefix="xrlv.c14.", dir=os.environ.get("VERIF_TMP") or "/var/tmp")
N_NEW = H.val.get("N_NEW_CRYSTAL", 10)

# random names, and names the built-in collection happens to know: a user-owned collection has nothing to do with it, whatever its state
NAME = hs.one_of(hs.text(alphabet="ABCDEFGHIJKLMNOPQRSTUVWXYZabcdefghijklmnopqrstuvwxyz0123456789_", min_size=1, max_size=20),
                 hs.text(alphabet="ABCDEFGHIJKLMNOPQRSTUVWXYZabcdefghijklmnopqrstuvwxyz0123456789_", min_size=1, max_size=20),
                 hs.sampled_from(["Si", "Diamond", "Graphite", "Ge", "AlphaQuartz", "LiF"]),
                 # names with bytes >= 0x80 (latin-1 here; to the library a name is a byte string): sorting and searching must agree on their order
                 hs.text(alphabet="ABab12_\xe9\xb5\xdf\xa0\xff", min_size=1, max_size=12))
LONGNAME = hs.tuples(hs.sampled_from(["Langasite_La3Ga5SiO14", "ABCDEFGHIJKLMNOPQRSTUVWXYZ", "x" * 24]), hs.text(alphabet="ABCab_12", min_size=1, max_size=4)).map(lambda t: t[0] + t[1])
# numbers carry at most 6 decimals: the documented file format is line oriented with short lines (the reader takes 99 characters per line)
FLT = hs.floats(0.5, 40.0).map(lambda x: round(x, 6))
ANG = hs.floats(40.0, 140.0).map(lambda x: round(x, 6))
COORD = hs.floats(-1.0, 1.0).map(lambda x: round(x, 6))
OCC = hs.floats(0.05, 1.0).map(lambda x: round(x, 6))


@hs.composite
def spec_st(draw):
    cell = [draw(FLT), draw(FLT), draw(FLT), draw(hs.one_of(hs.just(90.0), ANG)), draw(hs.one_of(hs.just(90.0), ANG)), draw(hs.one_of(hs.just(90.0), hs.just(120.0), ANG))]
    atoms = []
    # a cell without atoms is accepted by both the reader and AddCrystal: generated too (about one crystal in seven)
    if draw(hs.integers(0, 11)) == 0:
        # now and then a crystal with many atoms (counts around powers of two and beyond): the rows come from one drawn seed so that the
        # example stays small for the shrinker
        import random as _random
        n = draw(hs.sampled_from([15, 16, 17, 31, 32, 33, 63, 64, 65, 127, 128, 129, 255, 256, 257, 600]))
        r = _random.Random(draw(hs.integers(0, 2 ** 32 - 1)))
        for _ in range(n):
            atoms.append((r.randint(1, 98), r.choice((1.0, 0.5, round(r.uniform(0.05, 1.0), 6))), round(r.uniform(-1, 1), 6), round(r.uniform(-1, 1), 6), round(r.uniform(-1, 1), 6)))
        return cell, atoms
    for _ in range(draw(hs.integers(0, 6))):
        atoms.append((draw(hs.integers(1, 98)), draw(hs.one_of(hs.just(1.0), OCC)), draw(COORD), draw(COORD), draw(COORD)))
    return cell, atoms


def make_struct(name, cell, atoms):
    arr = (xrl.CrystalAtom * len(atoms))()
    for i, (z, fr, x, y, zz) in enumerate(atoms):
        arr[i].Zatom, arr[i].fraction, arr[i].x, arr[i].y, arr[i].z = z, fr, x, y, zz
    cs = xrl.CrystalStruct()
    cs.name = name
    cs.a, cs.b, cs.c, cs.alpha, cs.beta, cs.gamma = cell
    cs.volume = -1.0  # deliberately wrong: the collection must recompute it
    cs.n_atom = len(atoms)
    cs.atom = cast(arr, POINTER(xrl.CrystalAtom))
    cs._keep = arr
    return cs


def _ws(text, key):
    """the format is whitespace separated: blanks, tabs and runs of both are the same thing.  Deterministic variation per crystal name."""
    k = sum(key.encode("latin-1")) % 4
    if k == 0:
        return text
    sep = ("\t", "  ", " \t ")[k - 1]
    head, nl, rest = text.partition("\n")
    return text.replace(" ", sep) if not rest else text


def file_text(crystals, corruption=None, where=0):
    """crystals: [(name, cell, atoms)].  corruption applied to crystals[where]"""
    out = ["#F generated\n", "#C comment line\n", "\n"]
    for idx, (name, cell, atoms) in enumerate(crystals):
        c = corruption if idx == where else None
        out.append("#S %d %s\n" % (max([a[0] for a in atoms] + [1]), name) if c != "s-without-name" else "#S 5\n")
        out.append("#UCOMMENT generated crystal\n")
        if c != "no-ucell":
            if c == "short-ucell":
                out.append("#UCELL %r %r %r %r %r\n" % tuple(cell[:5]))
            else:
                out.append(_ws("#UCELL %r %r %r %r %r %r\n" % tuple(cell), name))
        if c == "double-ucell":
            out.append("#UCELL %r %r %r %r %r %r\n" % tuple(cell))
        out.append("#UTEMP 298\n")
        out.append("#N 5\n")
        out.append("#L  AtomicNumber  Fraction  X  Y  Z\n")
        if c == "eof-after-L":
            return "".join(out)
        for j, (z, fr, x, y, zz) in enumerate(atoms):
            if c == "bad-atom-row" and j == len(atoms) - 1:
                out.append("%d %r abc %r %r\n" % (z, fr, y, zz))
            else:
                out.append(_ws("%d %r %r %r %r\n" % (z, fr, x, y, zz), name))
        if c == "bad-atom-row" and not atoms:
            out.append("14 1.0 abc 0.5 0.5\n")
    # how a file ends is not part of the format: with "#EOF", without it, without a final newline
    # (only when the last crystal has atoms: a header-only last block that runs into the end of the file is the "eof-after-L" corruption)
    k = sum(crystals[0][0].encode("latin-1")) % 5 if crystals and corruption is None and crystals[-1][2] else 0
    if k == 1:
        pass                                   # no #EOF line
    elif k == 2:
        return "".join(out).rstrip("\n")      # no #EOF and no final newline
    else:
        out.append("#EOF\n")
    return "".join(out)


CORRUPTIONS = ["no-ucell", "double-ucell", "short-ucell", "bad-atom-row", "s-without-name", "eof-after-L"]


class Fail(Exception):
    pass


STALE = [0]
_E = ctypes.CDLL(lib_path, use_errno=True)          # same library image; this handle lets errno be set right before the call
_E.Crystal_ReadFile.restype = c_int
_E.Crystal_ReadFile.argtypes = [ctypes.c_char_p, c_void_p, POINTER(c_void_p)]


def read_file(path, arr):
    """Crystal_ReadFile with the thread's errno preset to the stale value; -> (rv, err)"""
    slot = c_void_p(None)
    ctypes.set_errno(STALE[0])
    rv = _E.Crystal_ReadFile(path, arr, byref(slot))
    err = None
    if slot.value:
        e = cast(slot, POINTER(xrl.XrlError)).contents
        err = (e.code, e.message)
        L._free(slot)
    return rv, err


def log(step):
    STEPLOG.write(step + "\n")
    STEPLOG.flush()


class Machine(RuleBasedStateMachine):
    def __init__(self):
        super().__init__()
        self.arr = None
        self.model = {}
        self.history = []
        self.was_full_insert = False
        self.failed_ops = 0
        self.cap = None

    def step(self, s):
        self.history.append(s)
        log(s)

    def fail(self, sig, expected, got):
        raise Fail((sig, dict(history=list(self.history)), expected, got))

    @initialize(cap=hs.integers(0, 12))
    def init(self, cap):
        log("--- new history")
        STALE[0] = 0
        self.step("ArrayInit(%d)" % cap)
        p, err = L.call("Crystal_ArrayInit", cap)
        if not p or err is not None:
            self.fail("init", "array", err)
        self.arr = p
        self.cap = cap
        bad, err = L.call("Crystal_ArrayInit", -1)
        if bad or err is None:
            self.fail("init:negative-capacity-noerror", "NULL and error", err)

    def call_add(self, name, cell, atoms):
        cs = make_struct(name, cell, atoms)
        return L.call("Crystal_AddCrystal", byref(cs), self.arr)

    @rule(name=hs.one_of(NAME, NAME, LONGNAME), spec=spec_st())
    def add_new(self, name, spec):
        nm = name.encode("latin-1")
        if nm in self.model:
            return
        full = len(self.model) >= self.cap
        self.step("Add(%r, cell=%r, natoms=%d)" % (name, spec[0], len(spec[1])))
        rv, err = self.call_add(nm, spec[0], spec[1])
        if rv != 1 or err is not None:
            self.fail("add:rejected-new", "1", dict(rv=rv, error=err))
        self.model[nm] = (list(spec[0]), [tuple(a) for a in spec[1]])
        if full:
            self.was_full_insert = True

    @precondition(lambda self: len(self.model) > 0)
    @rule(data=hs.data(), spec=spec_st())
    def add_existing(self, data, spec):
        nm = data.draw(hs.sampled_from(sorted(self.model)))
        self.step("AddExisting(%r)" % nm)
        rv, err = self.call_add(nm, spec[0], spec[1])
        if rv != 0 or err is None:
            self.fail("add:duplicate-accepted", "0 and error", dict(rv=rv, error=err))
        self.failed_ops += 1

    @rule()
    def add_null(self):
        self.step("AddNull()")
        rv, err = L.call("Crystal_AddCrystal", None, self.arr)
        if rv != 0 or err is None:
            self.fail("add:null-accepted", "0 and error", dict(rv=rv, error=err))
        self.failed_ops += 1

    @rule(name=hs.one_of(NAME, LONGNAME))
    def get_absent(self, name):
        nm = name.encode("latin-1")
        if nm in self.model:
            return
        self.step("GetAbsent(%r)" % name)
        p, err = L.call("Crystal_GetCrystal", nm, self.arr)
        if p or err is None:
            self.fail("get:absent-found", "NULL and error", dict(found=bool(p), error=err))
        self.failed_ops += 1

    @precondition(lambda self: len(self.model) > 0)
    @rule(data=hs.data())
    def copy_mutate_free(self, data):
        nm = data.draw(hs.sampled_from(sorted(self.model)))
        self.step("CopyMutateFree(%r)" % nm)
        p, err = L.call("Crystal_GetCrystal", nm, self.arr)
        if not p:
            self.fail("get:present-missing", "entry", err)
        c = p.contents
        for i in range(c.n_atom):
            c.atom[i].Zatom = -3
            c.atom[i].x = 99.0
        c.a = c.volume = -5.0
        name_addr = cast(ctypes.pointer(c), POINTER(c_void_p))[0]
        ctypes.memset(name_addr, ord("#"), len(ctypes.string_at(name_addr)))
        p2, _ = L.call("Crystal_MakeCopy", p)
        L.fn["Crystal_Free"](p)
        if p2:
            L.fn["Crystal_Free"](p2)

    def write_file(self, text):
        path = os.path.join(TMPDIR, "c%d.dat" % len(self.history))
        with open(path, "w", encoding="latin-1") as f:
            f.write(text)
        return path

    @rule(names=hs.lists(NAME, min_size=1, max_size=14, unique=True), specs=hs.lists(spec_st(), min_size=14, max_size=14))
    def readfile_wellformed(self, names, specs):
        names = [n for n in names if n.encode("latin-1") not in self.model]
        if not names:
            return
        crystals = [(n, specs[i][0], specs[i][1]) for i, n in enumerate(names)]
        full = len(self.model) + len(crystals) > self.cap
        self.step("ReadFile(wellformed, %r)" % names)
        path = self.write_file(file_text(crystals))
        rv, err = read_file(path.encode(), self.arr)
        os.unlink(path)
        if rv != 1 or err is not None:
            self.fail("readfile:wellformed-rejected", "1", dict(rv=rv, error=err))
        for n, cell, atoms in crystals:
            self.model[n.encode("latin-1")] = (list(cell), [tuple(a) for a in atoms])
        if full:
            self.was_full_insert = True

    @rule(names=hs.lists(NAME, min_size=1, max_size=4, unique=True), specs=hs.lists(spec_st(), min_size=4, max_size=4),
          kind=hs.sampled_from(CORRUPTIONS), where=hs.integers(0, 3))
    def readfile_corrupted(self, names, specs, kind, where):
        names = [n for n in names if n.encode("latin-1") not in self.model]
        if not names:
            return
        crystals = [(n, specs[i][0], specs[i][1]) for i, n in enumerate(names)]
        w = where % len(crystals)
        self.step("ReadFile(corrupted:%s at %d of %r)" % (kind, w, names))
        path = self.write_file(file_text(crystals, kind, w))
        rv, err = read_file(path.encode(), self.arr)
        os.unlink(path)
        if rv != 0 or err is None:
            self.fail("readfile:corrupted-accepted:" + kind, "0 and error", dict(rv=rv, error=err))
        self.failed_ops += 1

    @precondition(lambda self: len(self.model) > 0)
    @rule(data=hs.data(), newname=NAME, specs=hs.lists(spec_st(), min_size=2, max_size=2), first=hs.booleans())
    def readfile_duplicate(self, data, newname, specs, first):
        dup = data.draw(hs.sampled_from(sorted(self.model))).decode("latin-1")
        if newname.encode("latin-1") in self.model or len(dup) > 20:
            return
        crystals = [(newname, specs[0][0], specs[0][1]), (dup, specs[1][0], specs[1][1])]
        if first:
            crystals.reverse()
        self.step("ReadFile(duplicate of %r with new %r)" % (dup, newname))
        path = self.write_file(file_text(crystals))
        rv, err = read_file(path.encode(), self.arr)
        os.unlink(path)
        if rv != 0 or err is None:
            self.fail("readfile:duplicate-accepted", "0 and error", dict(rv=rv, error=err))
        self.failed_ops += 1

    @rule(names=hs.lists(NAME, min_size=1, max_size=5, unique=True), specs=hs.lists(spec_st(), min_size=6, max_size=6), pos=hs.tuples(hs.integers(0, 4), hs.integers(0, 5)))
    def readfile_repeats_itself(self, names, specs, pos):
        """one file that defines the same new name twice (adjacent or not): rejected as a whole, collection unchanged"""
        names = [n for n in names if n.encode("latin-1") not in self.model]
        if not names:
            return
        src_i = pos[0] % len(names)
        seq = list(names)
        seq.insert(pos[1] % (len(seq) + 1), names[src_i])
        crystals = [(n, specs[i][0], specs[i][1]) for i, n in enumerate(seq)]
        self.step("ReadFile(same name twice in one file: %r)" % seq)
        path = self.write_file(file_text(crystals))
        rv, err = read_file(path.encode(), self.arr)
        os.unlink(path)
        if rv != 0 or err is None:
            self.fail("readfile:infile-duplicate-accepted", "0 and error", dict(rv=rv, error=err))
        self.failed_ops += 1

    @rule(text=hs.sampled_from(["", "#F nothing here\n#C only comments\n", "\n\n", "#EOF\n"]))
    def readfile_no_crystals(self, text):
        self.step("ReadFile(no crystals: %r)" % text)
        path = self.write_file(text)
        rv, err = read_file(path.encode(), self.arr)
        os.unlink(path)
        if (rv == 0) != (err is not None):
            self.fail("readfile:error-iff-zero", "rv==0 <=> error", dict(rv=rv, error=err))

    @rule(kind=hs.sampled_from([34, 33, 2, 0]))
    def stale_errno(self, kind):
        """the caller's thread may carry any errno from unrelated work (ERANGE, EDOM, ENOENT, or none); it is put in place right before every later
        Crystal_ReadFile call (ctypes use_errno), because nothing the library does may depend on it"""
        self.step("StaleErrno(%d)" % kind)
        STALE[0] = kind

    @rule()
    def readfile_missing(self):
        self.step("ReadFile(missing path)")
        rv, err = read_file(os.path.join(TMPDIR, "does-not-exist.dat").encode(), self.arr)
        if rv != 0 or err is None:
            self.fail("readfile:missing-accepted", "0 and error", dict(rv=rv, error=err))
        rv, err = read_file(None, self.arr)
        if rv != 0 or err is None:
            self.fail("readfile:null-accepted", "0 and error", dict(rv=rv, error=err))
        self.failed_ops += 1

    @invariant()
    def consistent(self):
        if self.arr is None:
            return
        ST.ev()
        n = c_int(-1)
        lst = L.fn["Crystal_GetCrystalsList"](self.arr, byref(n), None)
        names = []
        raw = cast(lst, POINTER(c_void_p))
        i = 0
        while raw[i]:
            names.append(ctypes.string_at(raw[i]))
            L.fn["xrlFree"](raw[i])
            i += 1
        L.fn["xrlFree"](cast(lst, c_void_p))
        exp = sorted(self.model)
        if names != exp or n.value != len(exp):
            self.fail("list:mismatch", [x.decode("latin-1") for x in exp], dict(n=n.value, names=[x.decode("latin-1") for x in names]))
        for nm, (cell, atoms) in self.model.items():
            p, err = L.call("Crystal_GetCrystal", nm, self.arr)
            if not p:
                self.fail("get:present-missing", nm.decode("latin-1"), err)
            c = p.contents
            got_cell = [c.a, c.b, c.c, c.alpha, c.beta, c.gamma]
            got_atoms = [(c.atom[i].Zatom, c.atom[i].fraction, c.atom[i].x, c.atom[i].y, c.atom[i].z) for i in range(c.n_atom)]
            vol, _ = L.call("Crystal_UnitCellVolume", p)
            stored = c.volume
            name = c.name
            L.fn["Crystal_Free"](p)
            if name != nm or got_cell != cell or got_atoms != atoms:
                self.fail("entry:content", dict(name=nm.decode("latin-1"), cell=cell, atoms=atoms), dict(name=name, cell=got_cell, atoms=got_atoms))
            if not (stored == vol or (stored != stored and vol != vol)):
                self.fail("entry:volume-not-recomputed", vol, stored)

    def teardown(self):
        if self.arr is not None:
            log("ArrayFree")
            L.fn["Crystal_ArrayFree"](self.arr)
            self.arr = None
            if self.was_full_insert or self.failed_ops:
                ST.nt_key(tuple(self.history))
                ST.cls("histories_crossing_capacity" if self.was_full_insert else "histories_with_failed_op")
            ST.cls("histories")
            ST.cls("steps", len(self.history))
            ST.sample("history", list(self.history)[:12], cap=2)


SETTINGS = settings(max_examples=n_examples, stateful_step_count=n_steps, database=None, deadline=None, derandomize=False,
                    report_multiple_bugs=False, suppress_health_check=list(HealthCheck), phases=[Phase.generate, Phase.shrink], print_blob=False)


def main():
    from hypothesis.stateful import run_state_machine_as_test
    try:
        run_state_machine_as_test(seed(seed_value)(Machine), settings=SETTINGS)
    except Fail as e:
        sig, case, exp, got = e.args[0]
        ST.violation(sig, case, exp, got, detail="history shrunk by Hypothesis")
    except Exception as e:
        # Hypothesis re-raises our Fail from the minimal example; anything else is infrastructure
        cause = e
        while cause is not None and not isinstance(cause, Fail):
            cause = cause.__cause__ or cause.__context__
        if isinstance(cause, Fail):
            sig, case, exp, got = cause.args[0]
            ST.violation(sig, case, exp, got, detail="history shrunk by Hypothesis")
        else:
            import traceback
            ST.violation("infra:c14-worker", dict(error=repr(e)[:300]), detail=traceback.format_exc()[-2000:])
    finally:
        import shutil
        shutil.rmtree(TMPDIR, ignore_errors=True)
    with open(out_path, "wb") as f:
        pickle.dump(ST, f)


if __name__ == "__main__":
    main()
