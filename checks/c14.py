"""C14 - crystal collections stay consistent under any sequence of operations.
Hypothesis rule-based state machine (checks/c14_worker.py) run in worker processes: plain library (model comparison, shrinking) and
ASan+UBSan library under LD_PRELOAD=libasan (memory errors; the step log is the replay); built-in collection histories in forked children."""
import ctypes, json, os, pickle, subprocess, sys
import common, vbuild, xrl
from common import Stats, mix

HERE = os.path.dirname(os.path.abspath(__file__))


def run_worker(item):
    lib, src, seed, n, steps, sdir, tag, asan = item
    st = Stats()
    out = os.path.join(sdir, "c14_%s.pkl" % tag)
    steplog = os.path.join(sdir, "c14_%s.steps" % tag)
    env = dict(os.environ, VERIF_TMP=sdir)      # generated files live in the scratch directory of the run, which the driver removes
    if asan:
        libasan = subprocess.check_output(["gcc", "-print-file-name=libasan.so"]).decode().strip()
        env.update(LD_PRELOAD=libasan, ASAN_OPTIONS="detect_leaks=0:abort_on_error=0:exitcode=99:allocator_may_return_null=1",
                   UBSAN_OPTIONS="halt_on_error=1:print_stacktrace=1")
    p = subprocess.run(["python3-vt", os.path.join(HERE, "c14_worker.py"), lib, src, str(seed), str(n), str(steps), out, steplog],
                       env=env, stdout=subprocess.PIPE, stderr=subprocess.PIPE, timeout=3600)
    if os.path.exists(out):
        with open(out, "rb") as f:
            st = pickle.load(f)
    if p.returncode != 0 or not os.path.exists(out):
        err = p.stderr.decode("utf-8", "replace")
        hist = []
        if os.path.exists(steplog):
            lines = open(steplog).read().split("\n")
            cut = max([i for i, l in enumerate(lines) if l.startswith("--- new history")] or [0])
            hist = [l for l in lines[cut + 1:] if l]
        kind = "asan" if "AddressSanitizer" in err else ("ubsan" if "runtime error" in err else "crash")
        frame = ""
        for l in err.split("\n"):
            if "/src/" in l and " in " in l:
                frame = l.split(" in ", 1)[1].split(" ")[0]
                break
        head = [l for l in err.split("\n") if "runtime error:" in l or "ERROR: AddressSanitizer" in l or "SUMMARY:" in l]
        st.violation("%s:%s" % (kind, frame or "worker-exit-%d" % p.returncode), dict(history=hist[-60:], variant=tag), "no memory error / crash",
                     "\n".join(head[:6]) + "\n" + err[:1500])
    return st




def work_builtin(item):
    lib, src, seed = item
    st = Stats()
    h = xrl.Headers(src)
    L = xrl.Lib(lib, h)
    import c15
    cap = h.val["CRYSTALARRAY_MAX"]
    names0, n0, _ = c15.cstr_list(L, "Crystal_GetCrystalsList", None)

    def mk(name):
        arr = (xrl.CrystalAtom * 1)()
        arr[0].Zatom, arr[0].fraction = 14, 1.0
        cs = xrl.CrystalStruct()
        cs.name = name
        cs.a = cs.b = cs.c = 5.0
        cs.alpha = cs.beta = cs.gamma = 90.0
        cs.n_atom = 1
        cs.atom = ctypes.cast(arr, ctypes.POINTER(xrl.CrystalAtom))
        cs._keep = arr
        return cs
    # duplicate of a built-in is rejected, collection unchanged
    st.ev()
    rv, err = L.call("Crystal_AddCrystal", ctypes.byref(mk(b"Si")), None)
    if rv != 0 or err is None:
        st.violation("builtin:duplicate-accepted", dict(name="Si"), "0 and error", dict(rv=rv, error=err))
    def snapshot():
        snap = {}
        for nm in names0:
            p, err = L.call("Crystal_GetCrystal", nm, None)
            if not p:
                snap[nm] = None
                continue
            c = p.contents
            snap[nm] = (c.name, c.a, c.b, c.c, c.alpha, c.beta, c.gamma, c.volume, tuple((c.atom[i].Zatom, c.atom[i].fraction, c.atom[i].x, c.atom[i].y, c.atom[i].z) for i in range(c.n_atom)))
            L.fn["Crystal_Free"](p)
        return snap
    snap0 = snapshot()
    added = []
    k = 0
    prefixes = ["0_first", "zz", "Be", "Mica_x", "A", "a", "LiF_", "~last"]   # insertion before, after and between the existing names
    while len(added) + n0 < cap:
        nm = ("%s_fill_%04d" % (prefixes[k % len(prefixes)], k)).encode()
        k += 1
        st.ev()
        rv, err = L.call("Crystal_AddCrystal", ctypes.byref(mk(nm)), None)
        if rv != 1:
            st.violation("builtin:add-rejected-below-capacity", dict(n=len(added) + n0, capacity=cap), "1", dict(rv=rv, error=err))
            break
        added.append(nm)
        if len(added) in (1, 2, 3, 5, 9) or len(added) + n0 == cap:
            # the existing entries are untouched by an insertion next to them
            st.ev()
            s1 = snapshot()
            if s1 != snap0:
                bad = sorted(n for n in snap0 if s1.get(n) != snap0[n])
                st.violation("builtin:entry-changed-by-insertion", dict(inserted=nm.decode(), n_added=len(added)), "entries as before", [b.decode() for b in bad][:5])
                break
    st.nt()
    st.ev()
    rv, err = L.call("Crystal_AddCrystal", ctypes.byref(mk(b"one_too_many")), None)
    if rv != 0 or err is None:
        st.violation("builtin:grew-past-capacity", dict(capacity=cap), "0 and error", dict(rv=rv, error=err))
    st.ev()
    rv_ns = L.fn["Crystal_AddCrystal"](ctypes.byref(mk(b"one_too_many_noslot")), None, None)      # the same refusal without an error slot
    if rv_ns != 0:
        st.violation("builtin:grew-past-capacity", dict(capacity=cap, error_slot=False), "0", dict(rv=rv_ns))
    names1, n1, _ = c15.cstr_list(L, "Crystal_GetCrystalsList", None)
    exp = sorted(names0 + added)
    st.ev()
    st.nt()
    if names1 != exp or n1 != len(exp):
        st.violation("builtin:list-after-fill", dict(capacity=cap), len(exp), n1)
    # reading a file into the full built-in collection must fail and leave it as it was
    path = os.path.join(os.environ.get("VERIF_TMP") or "/var/tmp", "xrlv.c14.builtin.%d.dat" % os.getpid())
    with open(path, "w") as f:
        f.write("#S 14 FromFile\n#UCELL 5 5 5 90 90 90\n#L Z F X Y Z\n14 1.0 0 0 0\n#EOF\n")
    st.ev()
    rv, err = L.call("Crystal_ReadFile", path.encode(), None)
    os.unlink(path)
    if rv != 0 or err is None:
        st.violation("builtin:readfile-grew-past-capacity", dict(capacity=cap), "0 and error", dict(rv=rv, error=err))
    names2, n2, _ = c15.cstr_list(L, "Crystal_GetCrystalsList", None)
    if names2 != exp:
        st.violation("builtin:changed-by-rejected-readfile", dict(capacity=cap), len(exp), n2)
    p, err = L.call("Crystal_GetCrystal", b"Si", None)
    st.ev()
    if not p:
        st.violation("builtin:lost-entry", dict(name="Si"), "entry", err)
    else:
        L.fn["Crystal_Free"](p)
    st.sample("builtin", dict(filled_to=cap, first_added=added[0].decode() if added else None), cap=1)
    return st


def work_builtin_exact(item):
    """the built-in collection filled to capacity-3 by AddCrystal, then files: 3 crystals (fits exactly: accepted), 1 crystal (refused, unchanged),
    no crystal (accepted, unchanged) - AddCrystal and ReadFile must agree about the capacity"""
    lib, src, seed = item
    st = Stats()
    h = xrl.Headers(src)
    L = xrl.Lib(lib, h)
    import c15
    cap = h.val["CRYSTALARRAY_MAX"]
    names0, n0, _ = c15.cstr_list(L, "Crystal_GetCrystalsList", None)
    arr = (xrl.CrystalAtom * 1)()
    arr[0].Zatom, arr[0].fraction = 14, 1.0
    added = []
    k = 0
    while n0 + len(added) < cap - 3:
        cs = xrl.CrystalStruct()
        nm = ("fill_%04d" % k).encode()
        k += 1
        cs.name = nm
        cs.a = cs.b = cs.c = 5.0
        cs.alpha = cs.beta = cs.gamma = 90.0
        cs.n_atom = 1
        cs.atom = ctypes.cast(arr, ctypes.POINTER(xrl.CrystalAtom))
        rv, err = L.call("Crystal_AddCrystal", ctypes.byref(cs), None)
        if rv != 1:
            st.violation("builtin:add-rejected-below-capacity", dict(n=n0 + len(added), capacity=cap), "1", dict(rv=rv, error=err))
            return st
        added.append(nm)
    path = os.path.join(os.environ.get("VERIF_TMP") or "/var/tmp", "xrlv.c14.exact.%d.dat" % os.getpid())

    def load(names):
        with open(path, "w") as f:
            f.write("#F exact fill\n" + "".join("#S 14 %s\n#UCELL 5 5 5 90 90 90\n#N 5\n#L Z F X Y Z\n14 1.0 0 0 0\n" % n for n in names) + "#EOF\n")
        rv, err = L.call("Crystal_ReadFile", path.encode(), None)
        os.unlink(path)
        return rv, err
    st.ev(); st.nt()
    rv, err = load(["exactA", "exactB", "exactC"])
    lst, n1, _ = c15.cstr_list(L, "Crystal_GetCrystalsList", None)
    exp = sorted(names0 + added + [b"exactA", b"exactB", b"exactC"])
    if rv != 1 or err is not None or lst != exp:
        st.violation("builtin:exact-fill-refused", dict(capacity=cap, before=cap - 3, file_crystals=3), "accepted: the file fits exactly", dict(rv=rv, error=err, n=n1))
        return st
    st.ev()
    rv, err = load(["one_too_many"])
    lst2, n2, _ = c15.cstr_list(L, "Crystal_GetCrystalsList", None)
    if rv != 0 or err is None or lst2 != exp:
        st.violation("builtin:readfile-grew-past-capacity", dict(capacity=cap), "0 and error, collection unchanged", dict(rv=rv, error=err, n=n2))
    st.ev()
    rv, err = load([])
    lst3, n3, _ = c15.cstr_list(L, "Crystal_GetCrystalsList", None)
    if (rv == 0) != (err is not None) or lst3 != exp:
        st.violation("builtin:empty-file-on-full-collection", dict(capacity=cap), "rv==0 <=> error, collection unchanged", dict(rv=rv, error=err, n=n3))
    st.sample("builtin_exact", dict(capacity=cap, filled_by_add=len(added), filled_by_file=3), cap=1)
    return st


def work_large(item):
    """a user-owned collection grows without limit: 700 additions (beyond the 512 of the built-in collection), by AddCrystal and by a 300-crystal
    file, from several initial capacities; everything listed and retrievable afterwards"""
    lib, src, seed = item
    st = Stats()
    h = xrl.Headers(src)
    L = xrl.Lib(lib, h)
    import c15
    arr1 = (xrl.CrystalAtom * 1)()
    arr1[0].Zatom, arr1[0].fraction = 14, 1.0
    for cap0 in (0, 3, 600):
        a, err = L.call("Crystal_ArrayInit", cap0)
        names = []
        ok = True
        for k in range(400):
            cs = xrl.CrystalStruct()
            nm = ("big_%04d" % ((k * 7919) % 10000)).encode()
            cs.name = nm
            cs.a = cs.b = cs.c = 5.0
            cs.alpha = cs.beta = cs.gamma = 90.0
            cs.n_atom = 1
            cs.atom = ctypes.cast(arr1, ctypes.POINTER(xrl.CrystalAtom))
            st.ev()
            rv, err = L.call("Crystal_AddCrystal", ctypes.byref(cs), a)
            if rv != 1:
                st.violation("add:rejected-new", dict(initial_capacity=cap0, entries=len(names)), "1", dict(rv=rv, error=err))
                ok = False
                break
            names.append(nm)
        if ok:
            path = os.path.join(os.environ.get("VERIF_TMP") or "/var/tmp", "xrlv.c14.large.%d.dat" % os.getpid())
            fnames = [("file_%04d" % k).encode() for k in range(300)]
            with open(path, "w") as f:
                f.write("".join("#S 14 %s\n#UCELL 5 5 5 90 90 90\n#N 5\n#L Z F X Y Z\n14 1.0 0 0 0\n" % n.decode() for n in fnames) + "#EOF\n")
            st.ev()
            rv, err = L.call("Crystal_ReadFile", path.encode(), a)
            os.unlink(path)
            if rv != 1:
                st.violation("readfile:wellformed-rejected", dict(initial_capacity=cap0, entries=len(names), file_crystals=300), "1", dict(rv=rv, error=err))
            else:
                names += fnames
            lst, n, _ = c15.cstr_list(L, "Crystal_GetCrystalsList", a)
            st.ev()
            st.nt()
            if lst != sorted(names):
                st.violation("list:mismatch", dict(initial_capacity=cap0, expected=len(names)), len(names), n)
        L.fn["Crystal_ArrayFree"](a)
    st.sample("large_collection", dict(entries=700, initial_capacities=[0, 3, 600]), cap=1)
    return st


def run(ctx):
    import concurrent.futures as cf
    quick = ctx.quick
    n, steps = (100, 40) if quick else (800, 150)
    ctx.rule = ("Hypothesis RuleBasedStateMachine (seeded): initial capacity 0..12; rules Add(new | existing | NULL), Get(absent), CopyMutateFree, "
                "ReadFile(well-formed 1..14 crystals | corrupted in 6 ways at any crystal | duplicate of an existing name | the same new name twice in one file | missing/NULL path); crystals have 0..6 atoms; "
                "names [A-Za-z0-9_]{1,20} plus >20-character names sharing a 20-character prefix; after every step List == sorted model keys and "
                "every entry is retrieved and compared (name, cell, atoms, stored volume == recomputed volume); %d histories x <=%d steps per worker, "
                "8 workers on the plain library + 4 on the ASan/UBSan library; built-in collection filled to capacity in a forked child (names before/between/after the built-ins, all entries re-read), and filled "
                "to capacity-3 then loaded with a 3-crystal, a 1-crystal and an empty file in another. "
                "non-trivial = history with a successful insertion after the array was full or with a rejected operation followed by a full "
                "read-back; distinct by history" % (n, steps))
    with cf.ThreadPoolExecutor(2) as ex:
        fa = ex.submit(ctx.build, "plain", "A")
        fb = ex.submit(ctx.build, "gasan", "A")
        bp, ba = fa.result(), fb.result()
    items = [(bp["lib"], bp["src"], mix(ctx.seed, "c14", k) % (2**31), n, steps, ctx.sdir, "plain%d" % k, False) for k in range(8 if quick else 12)]
    items += [(ba["lib"], ba["src"], mix(ctx.seed, "c14a", k) % (2**31), max(10, n // 4), steps, ctx.sdir, "asan%d" % k, True) for k in range(4)]
    with cf.ThreadPoolExecutor(12) as ex:
        for st in ex.map(run_worker, items):
            ctx.stats.merge(st)
    ctx.stats.merge(common.pmap(work_builtin, [(bp["lib"], bp["src"], ctx.seed)]))
    ctx.stats.merge(common.pmap(work_builtin_exact, [(bp["lib"], bp["src"], ctx.seed)]))
    ctx.stats.merge(common.pmap(work_large, [(bp["lib"], bp["src"], ctx.seed)]))
    ctx.assumptions = ["leak freedom of Crystal_ArrayFree is decided by C04 (LeakSanitizer histories); here ASan/UBSan watch for corruption",
                       "file names are limited to 20 characters by the documented '#S <num> <name>' format (%20s)"]


def replay(ctx, rec):
    # a history is replayed by re-running the machine with the recorded seed; the shrunk history itself is in the replay file for reading
    b = ctx.build("plain", "A")
    st = run_worker((b["lib"], b["src"], mix(rec.get("seed", 1), "c14", 0) % (2**31), 60, 40, ctx.sdir, "replay", False))
    bad = [v for v in st.violations if v["sig"] == rec["signature"]]
    st2 = common.pmap(work_builtin, [(b["lib"], b["src"], 1)])
    bad += [v for v in st2.violations if v["sig"] == rec["signature"]]
    st3 = common.pmap(work_builtin_exact, [(b["lib"], b["src"], 1)])
    bad += [v for v in st3.violations if v["sig"] == rec["signature"]]
    st4 = common.pmap(work_large, [(b["lib"], b["src"], 1)])
    bad += [v for v in st4.violations if v["sig"] == rec["signature"]]
    for v in bad[:2]:
        print("replay:", v["sig"], v["case"])
    return not bad
