"""C05 - totals, per-atom and differential cross sections obey their defining identities.
All Z x energies over the whole tabulated range (photo knots, edges +-eps, range ends, seeded draws) x angle grids; each aggregate is
compared with the identity evaluated from the public component functions and header constants; configurations A and B."""
import math, random
import common, xrl
from common import Stats, mix

TOL = 1e-13
PI = math.pi
THETAS = [0.0, 1e-8, -1e-8, PI / 6, PI / 2, PI, -PI / 3, 2 * PI, 2.5, 7.0]
PHIS = [0.0, PI / 4, PI / 2, PI, -1.0]


def energies(env_df, z, rng, nrand, knots_step):
    es = set()
    tab = env_df["photo"].get(z)
    if tab:
        xs = tab[0]
        for k in range(0, len(xs), knots_step):
            es.add(math.exp(xs[k]) / 1000.0)
        lo, hi = math.exp(xs[0]) / 1000.0, math.exp(xs[-1]) / 1000.0
        for d in (1e-9, 1e-3):
            es.update([lo * (1 - d), lo * (1 + d), hi * (1 - d), hi * (1 + d)])
        for _ in range(nrand):
            es.add(math.exp(math.log(lo) + rng.random() * (math.log(hi) - math.log(lo))))
        # every doubled knot of the photo table (an absorption edge as the table sees it), hit exactly: the energy whose logarithm is bit-equal
        # to the knot, with its two neighbours in the double grid (the grid point before it is then a lookup just below the edge)
        for k in range(len(xs) - 1):
            if xs[k] == xs[k + 1]:
                # the knot as the library holds it (the build keeps 11 significant digits) and as the data file prints it
                for kn in {xrl.round11(xs[k]), xs[k]}:
                    c = math.exp(kn) / 1000.0
                    for _ in range(40):       # a dozen neighbouring doubles share one logarithm: start well below and take the first that hits
                        c = math.nextafter(c, 0.0)
                    for _ in range(90):
                        if math.log(c * 1000.0) == kn:
                            es.update([math.nextafter(c, 0.0), c, math.nextafter(c, math.inf)])
                            break
                        c = math.nextafter(c, math.inf)
    for (zz, sh), e in env_df["edges"].items():
        if zz == z and e > 0:
            es.update([e * (1 - 1e-9), e, xrl.round11(e), e * (1 + 1e-9)])
    es.update([0.0, -1.0, 1e-300, 1e300, 0.5, 5.0, 50.0, 500.0])
    return sorted(es)


def check(st, config, fn, args, exp, got, err, tol=TOL, parts_note=None):
    st.ev()
    case = dict(config=config, fn=fn, args=list(args))
    if exp is None:
        st.cls("aggregate_must_fail")
        if err is None or got != 0.0:
            st.violation("partial-or-noerror:" + fn, case, "error and 0.0 (a required part is undefined)", dict(value=got, error=err, note=parts_note))
        return
    st.cls("aggregate_value")
    if err is not None:
        st.violation("spurious-error:" + fn, case, exp, dict(value=got, error=err))
        return
    if not math.isfinite(got) or (xrl.relerr(got, exp) > tol and abs(got - exp) > 1e-300):
        st.violation("identity:" + fn, case, exp, got)
        return
    st.nt()
    st.sample(fn, dict(case, expected=exp, got=got), cap=1)


def work(item):
    config, lib_path, src, zs, seed, quick = item
    st = Stats()
    h = xrl.Headers(src)
    df = xrl.DataFiles(src)
    L = xrl.Lib(lib_path, h)
    V = L.val
    NA = h.val["AVOGNUM"]
    zmax = h.val["ZMAX"]
    nk = h.val["SHELLNUM_K"]
    dfs = dict(photo=df.spline3("CS_Photo.dat"), edges=df.named3("edges.dat", 1000.0))
    for z in zs:
        rng = random.Random(mix(seed, "c05", z))
        aw = V("AtomicWeight", z)
        Es = energies(dfs, z, rng, 8 if quick else 40, 10 if quick else 2)
        for iE, E in enumerate(Es):
            ph, ra, co = V("CS_Photo", z, E), V("CS_Rayl", z, E), V("CS_Compt", z, E)
            # total
            exp = (ph + ra + co) if None not in (ph, ra, co) else None
            # the identities hold whatever was asked before: each aggregate is preceded by a question about one of its parts at the neighbouring
            # energy of the grid (for an edge that is the point 1e-9 below it), which is what an energy scan does
            Eprev = Es[iE - 1] if iE else E
            V("CS_Photo", z, Eprev)
            got, err = L.call("CS_Total", z, E)
            check(st, config, "CS_Total", (z, E), exp, got, err)
            # barn twins of the four
            for base, val in (("Total", exp), ("Photo", ph), ("Rayl", ra), ("Compt", co)):
                e2 = val * aw / NA if (val is not None and aw is not None) else None
                V("CS_" + ("Photo" if base == "Total" else base), z, Eprev)
                got, err = L.call("CSb_" + base, z, E)
                check(st, config, "CSb_" + base, (z, E), e2, got, err)
            # Kissel photo total = occupancy-weighted sum of sub-shell cross sections
            s = 0.0
            nparts = 0
            for sh in range(nk):
                ec = V("ElectronConfig", z, sh)
                if ec is None:
                    continue
                p = V("CSb_Photo_Partial", z, sh, E)
                if p is None:
                    continue
                s += p * ec
                nparts += 1
                # cm2/g twin of the partial
                e3 = p * ec * NA / aw if aw is not None else None
                got, err = L.call("CS_Photo_Partial", z, sh, E)
                check(st, config, "CS_Photo_Partial", (z, sh, E), e3, got, err)
            expb = s if s != 0.0 else None
            got, err = L.call("CSb_Photo_Total", z, E)
            check(st, config, "CSb_Photo_Total", (z, E), expb, got, err, 1e-12, nparts)
            exppt = expb * NA / aw if (expb is not None and aw is not None) else None
            got, err = L.call("CS_Photo_Total", z, E)
            check(st, config, "CS_Photo_Total", (z, E), exppt, got, err, 1e-12)
            pt = V("CS_Photo_Total", z, E)
            exptk = (pt + ra + co) if None not in (pt, ra, co) else None
            got, err = L.call("CS_Total_Kissel", z, E)
            check(st, config, "CS_Total_Kissel", (z, E), exptk, got, err)
            e4 = exptk * aw / NA if (exptk is not None and aw is not None) else None
            got, err = L.call("CSb_Total_Kissel", z, E)
            check(st, config, "CSb_Total_Kissel", (z, E), e4, got, err)
            if config == "A" and (expb is not None):
                st.cls("kissel_data_present_in_A")      # a tree whose data/kissel_pe.dat is filled in: configuration A is then a second B, not a violation
        # differential cross sections on a sub-grid of energies
        Ed = [e for i, e in enumerate(Es) if e > 0 and (i % (7 if quick else 2) == 0)] + [0.0, -1.0]
        for E in Ed:
            for th in THETAS + [rng.uniform(-4 * PI, 4 * PI)]:
                q = V("MomentTransf", E, th)
                F = V("FF_Rayl", z, q) if q is not None else None
                S = V("SF_Compt", z, q) if q is not None else None
                tho, kn = V("DCS_Thoms", th), V("DCS_KN", E, th)
                ok = aw is not None and 1 <= z <= zmax and E > 0
                exp_r = (NA / aw * F * F * tho) if ok and None not in (F, tho) else None
                exp_c = (NA / aw * S * kn) if ok and None not in (S, kn) else None
                for fn, e in (("DCS_Rayl", exp_r), ("DCS_Compt", exp_c)):
                    got, err = L.call(fn, z, E, th)
                    if e == 0.0:
                        e = None if False else e
                    check_d(st, config, fn, (z, E, th), e, got, err)
                    eb = e * aw / NA if e is not None else None
                    got, err = L.call(fn.replace("DCS_", "DCSb_"), z, E, th)
                    check_d(st, config, fn.replace("DCS_", "DCSb_"), (z, E, th), eb, got, err)
                for ph_ in PHIS[: (2 if quick else 5)] + [rng.uniform(-PI, PI)]:
                    thp, knp = V("DCSP_Thoms", th, ph_), V("DCSP_KN", E, th, ph_)
                    exp_rp = (NA / aw * F * F * thp) if ok and None not in (F, thp) else None
                    exp_cp = (NA / aw * S * knp) if ok and None not in (S, knp) else None
                    for fn, e in (("DCSP_Rayl", exp_rp), ("DCSP_Compt", exp_cp)):
                        got, err = L.call(fn, z, E, th, ph_)
                        check_d(st, config, fn, (z, E, th, ph_), e, got, err)
                        eb = e * aw / NA if e is not None else None
                        got, err = L.call(fn.replace("DCSP_", "DCSPb_"), z, E, th, ph_)
                        check_d(st, config, fn.replace("DCSP_", "DCSPb_"), (z, E, th, ph_), eb, got, err)
    return st


def check_d(st, config, fn, args, exp, got, err):
    """differential identities: the value may legitimately be exactly 0 (polarised forms vanish at theta=pi/2, phi=0)"""
    st.ev()
    case = dict(config=config, fn=fn, args=list(args))
    if exp is None:
        st.cls("aggregate_must_fail")
        if err is None or got != 0.0:
            st.violation("partial-or-noerror:" + fn, case, "error and 0.0 (a required part is undefined)", dict(value=got, error=err))
        return
    if exp == 0.0:
        st.cls("zero_value")
        if got != 0.0:
            st.violation("identity:" + fn, case, exp, dict(value=got, error=err))
        return
    st.cls("aggregate_value")
    if err is not None:
        st.violation("spurious-error:" + fn, case, exp, dict(value=got, error=err))
        return
    if not math.isfinite(got) or xrl.relerr(got, exp) > TOL:
        st.violation("identity:" + fn, case, exp, got)
        return
    st.nt()
    st.sample(fn, dict(case, expected=exp, got=got), cap=1)


def run(ctx):
    import c01
    ctx.rule = ("Z in [-1,122] x energies {every k-th CS_Photo knot (k=10 quick, 2 thorough), table ends x(1-+{1e-9,1e-3}), every edge x(1-+1e-9), "
                "0, -1, 1e+-300, seeded log-uniform draws} x theta grid (0, +-1e-8, pi/6, pi/2, pi, negative, 2pi, >2pi, seeded) x phi grid, "
                "configurations A and B; CS_Total, CSb_*, CS(b)_Photo_Total/Partial, CS(b)_Total_Kissel, DCS(b)/DCSP(b)_Rayl/Compt compared at "
                "1e-13 (1e-12 for the sub-shell sum) with the identity built from public components; aggregate must fail iff a part fails. "
                "non-trivial = aggregate succeeded and was compared numerically (distinct by construction: one per (function, Z, E, angles))")
    builds = c01.prepare(ctx)
    zs = list(range(-1, 123))
    items = []
    for cfg in ("A", "B"):
        for i in range(16):
            items.append((cfg, builds[cfg]["lib"], builds[cfg]["src"], zs[i::16], ctx.seed, ctx.quick))
    ctx.stats.merge(common.pmap(work, items))
    ctx.assumptions = ["component functions are decided by C01/C02/C12; this check only relates aggregates to their parts"]


def replay(ctx, rec):
    import c01
    c = rec["case"]
    builds = c01.prepare(ctx)
    cfg = c.get("config", "A")
    z = c["args"][0]
    st = work((cfg, builds[cfg]["lib"], builds[cfg]["src"], [z], rec.get("seed", ctx.seed), ctx.quick))
    bad = [v for v in st.violations if v["sig"] == rec["signature"]]
    for v in bad[:3]:
        print("replay:", v)
    return not bad
