"""C13 - crystal diffraction results obey Bragg's law and structure-factor algebra.
38 built-in crystals + Hypothesis-generated valid triclinic cells x Miller indices in [-6,6]^3 x energies 0.1..200 keV x Debye factors x
relative angles x all flag combinations (and invalid flags); oracles: reciprocal-metric formula, Bragg's law, explicit structure-factor sum
with the atomic factors the library itself reports, flag additivity, Friedel's law, F(000)."""
import ctypes, math, random
import numpy as np
from ctypes import c_int, c_double, c_void_p, byref, POINTER
from hypothesis import strategies as hs
import common, xrl, hyp
from common import Stats, mix

PI = math.pi


def cosd(x):
    return math.cos(x * PI / 180.0)


def metric(cell):
    a, b, c, al, be, ga = cell
    G = np.array([[a * a, a * b * cosd(ga), a * c * cosd(be)], [a * b * cosd(ga), b * b, b * c * cosd(al)], [a * c * cosd(be), b * c * cosd(al), c * c]])
    return G


class Env:
    def __init__(self, lib_path, src):
        self.h = h = xrl.Headers(src)
        self.L = L = xrl.Lib(lib_path, h)
        self.K = h.val["KEV2ANGST"]
        import c15
        names, n, err = c15.cstr_list(L, "Crystal_GetCrystalsList", None)
        self.names = names or []
        self.extra = {}
        for nm, argt in (("Crystal_F_H_StructureFactor2", [POINTER(xrl.CrystalStruct), c_double, c_int, c_int, c_int, c_double, c_double, POINTER(xrl.xrlComplex), c_void_p]),
                         ("Crystal_F_H_StructureFactor_Partial2", [POINTER(xrl.CrystalStruct), c_double, c_int, c_int, c_int, c_double, c_double, c_int, c_int, c_int,
                                                                   POINTER(xrl.xrlComplex), c_void_p])):
            try:
                f = getattr(L.dll, nm)
                f.restype = None
                f.argtypes = argt
                self.extra[nm] = f
            except AttributeError:
                pass

    def builtin(self, name):
        p, err = self.L.call("Crystal_GetCrystal", name, None)
        return p

    def make(self, name, cell, atoms):
        """user supplied crystal: ctypes struct kept alive by the caller"""
        arr = (xrl.CrystalAtom * len(atoms))()
        for i, (z, fr, x, y, zz) in enumerate(atoms):
            arr[i].Zatom, arr[i].fraction, arr[i].x, arr[i].y, arr[i].z = z, fr, x, y, zz
        cs = xrl.CrystalStruct()
        cs.name = name
        cs.a, cs.b, cs.c, cs.alpha, cs.beta, cs.gamma = cell
        cs.n_atom = len(atoms)
        cs.atom = ctypes.cast(arr, POINTER(xrl.CrystalAtom))
        cs.volume = 0.0
        v, err = self.L.call("Crystal_UnitCellVolume", byref(cs))
        cs.volume = v
        cs._keep = arr
        return cs


def describe(cs):
    return dict(name=cs.name.decode() if cs.name else None, cell=[cs.a, cs.b, cs.c, cs.alpha, cs.beta, cs.gamma],
                atoms=[[cs.atom[i].Zatom, cs.atom[i].fraction, cs.atom[i].x, cs.atom[i].y, cs.atom[i].z] for i in range(min(cs.n_atom, 30))])


def check_geometry(st, env, cp, hkl, E, builtin):
    """cp: pointer/byref to crystal.  returns violation tuple or None"""
    L = env.L
    cs = cp.contents if hasattr(cp, "contents") else cp._obj
    cell = [cs.a, cs.b, cs.c, cs.alpha, cs.beta, cs.gamma]
    case = dict(crystal=describe(cs), hkl=list(hkl), E=E)
    st.ev()
    G = metric(cell)
    Vref = math.sqrt(max(np.linalg.det(G), 0.0))
    v, err = L.call("Crystal_UnitCellVolume", cp)
    if err is not None or xrl.relerr(v, Vref) > 1e-11:
        return ("volume:recomputed", case, Vref, dict(value=v, error=err))
    if xrl.relerr(cs.volume, Vref) > (1e-6 if builtin else 1e-11):
        return ("volume:stored", case, Vref, cs.volume)
    h, k, l = hkl
    d, err = L.call("Crystal_dSpacing", cp, h, k, l)
    if (h, k, l) == (0, 0, 0):
        if err is None or d != 0.0:
            return ("dspacing:000-noerror", case, "error", dict(value=d, error=err))
        th, e2 = L.call("Bragg_angle", cp, E, 0, 0, 0)
        if e2 is None or th != 0.0:
            return ("bragg:000-noerror", case, "error", dict(value=th, error=e2))
        return None
    if err is not None or not math.isfinite(d) or d <= 0:
        return ("dspacing:error", case, "positive value", dict(value=d, error=err))
    hv = np.array([h, k, l], dtype=float)
    dref = 1.0 / math.sqrt(hv @ np.linalg.inv(G) @ hv)
    if xrl.relerr(d, dref) > (1e-6 if builtin else 1e-10):
        return ("dspacing:metric", case, dref, d)
    d2, _ = L.call("Crystal_dSpacing", cp, -h, -k, -l)
    if d2 != d and xrl.relerr(d2, d) > 1e-14:
        return ("dspacing:inversion", case, d, d2)
    for n in (2, 3):
        dn, _ = L.call("Crystal_dSpacing", cp, n * h, n * k, n * l)
        if xrl.relerr(dn * n, d) > 1e-13:
            return ("dspacing:scaling", dict(case, n=n), d / n, dn)
    # the Bragg cut-off E_c = hc/(2d) is where the code changes branch: bracket it from both sides
    Ec = env.K / (2 * d)
    for f in (1e-9, 3e-7, 1e-5):
        for sgn in (-1, 1):
            Ex = Ec * (1 + sgn * f)
            lx = env.K / Ex
            if abs(lx / (2 * d) - 1.0) < 1e-12:
                continue
            st.ev()
            tx, ex = L.call("Bragg_angle", cp, Ex, h, k, l)
            if lx > 2 * d:
                if ex is None or tx != 0.0:
                    return ("bragg:no-reflection-noerror", dict(case, E=Ex, cutoff=Ec), "error (lambda > 2d)", dict(value=tx, error=ex))
                qx, eq = L.call("Q_scattering_amplitude", cp, Ex, h, k, l, 1.0)
                if eq is None or qx != 0.0:
                    return ("q:no-reflection-noerror", dict(case, E=Ex, cutoff=Ec), "error", dict(value=qx, error=eq))
            else:
                if ex is not None or not math.isfinite(tx) or abs(2 * d * math.sin(tx) - lx) > 1e-9 * lx:
                    return ("bragg:law", dict(case, E=Ex, cutoff=Ec), lx, dict(value=tx, error=ex))
            st.cls("cutoff_bracketing")
    th, err = L.call("Bragg_angle", cp, E, h, k, l)
    if E <= 0:
        if err is None or th != 0.0:
            return ("bragg:nonpositive-energy", case, "error", dict(value=th, error=err))
        return None
    lam = env.K / E
    if lam > 2 * d * (1 + 1e-12):
        st.cls("no_reflection")
        if err is None or th != 0.0:
            return ("bragg:no-reflection-noerror", case, "error (lambda > 2d)", dict(value=th, error=err))
        q, eq = L.call("Q_scattering_amplitude", cp, E, h, k, l, 1.0)
        if eq is None or q != 0.0:
            return ("q:no-reflection-noerror", case, "error", dict(value=q, error=eq))
        F, ef = L.call("Crystal_F_H_StructureFactor", cp, E, h, k, l, 1.0, 1.0)
        if ef is None or F.re != 0.0 or F.im != 0.0:
            return ("F:no-reflection-noerror", case, "error and {0,0}", dict(value=[F.re, F.im], error=ef))
        return None
    if lam > 2 * d * (1 - 1e-12):
        return None  # exactly grazing: either outcome
    if err is not None or not math.isfinite(th):
        return ("bragg:error", case, math.asin(lam / (2 * d)), dict(value=th, error=err))
    if abs(2 * d * math.sin(th) - lam) > 1e-11 * lam or not (0 < th <= PI / 2 + 1e-12):
        return ("bragg:law", case, lam, 2 * d * math.sin(th))
    st.cls("reflection")
    return None


def check_structure_factor(st, env, cp, hkl, E, debye, rel, builtin):
    L = env.L
    cs = cp.contents if hasattr(cp, "contents") else cp._obj
    h, k, l = hkl
    case = dict(crystal=describe(cs), hkl=list(hkl), E=E, debye=debye, rel_angle=rel)
    st.ev()
    zero = (h, k, l) == (0, 0, 0)
    if not zero:
        d, err = L.call("Crystal_dSpacing", cp, h, k, l)
        if err is not None or env.K / E > 2 * d * (1 - 1e-9):
            return None  # no reflection: handled by check_geometry
    if debye <= 0:
        F, ef = L.call("Crystal_F_H_StructureFactor", cp, E, h, k, l, debye, rel)
        if ef is None or F.re != 0.0 or F.im != 0.0:
            return ("F:debye-noerror", case, "error and {0,0}", dict(value=[F.re, F.im], error=ef))
        return None
    q, eq = L.call("Q_scattering_amplitude", cp, E, h, k, l, rel)
    if eq is not None or not math.isfinite(q):
        return ("q:error", case, "value", dict(value=q, error=eq))
    # atomic factors as the library reports them
    fac = {}
    available = True
    for i in range(cs.n_atom):
        z = cs.atom[i].Zatom
        if z in fac:
            continue
        f0, f1, f2 = c_double(), c_double(), c_double()
        slot = c_void_p(None)
        rv = L.fn["Atomic_Factors"](z, E, q, debye, byref(f0), byref(f1), byref(f2), byref(slot))
        if slot.value:
            L._free(slot)
        if rv == 0:
            available = False
            break
        fac[z] = (f0.value, f1.value, f2.value)
    Fs = {}
    for flags in [(2, 2, 2), (2, 0, 0), (0, 2, 0), (0, 0, 2), (1, 0, 0), (1, 2, 2), (2, 2, 0)]:
        F, ef = L.call("Crystal_F_H_StructureFactor_Partial", cp, E, h, k, l, debye, rel, *flags)
        if not available:
            if ef is None and (F.re != 0.0 or F.im != 0.0):
                return ("F:value-with-unavailable-factors", dict(case, flags=list(flags)), "error or zero", [F.re, F.im])
            continue
        if ef is not None or not (math.isfinite(F.re) and math.isfinite(F.im)):
            return ("F:error", dict(case, flags=list(flags)), "finite value", dict(value=[F.re, F.im], error=ef))
        re = im = 0.0
        scale = 0.0
        for i in range(cs.n_atom):
            a = cs.atom[i]
            f0, f1, f2 = fac[a.Zatom]
            fr = {0: 0.0, 1: 1.0, 2: f0}[flags[0]] + (f1 if flags[1] == 2 else 0.0)
            fi = f2 if flags[2] == 2 else 0.0
            ph = 2 * PI * (h * a.x + k * a.y + l * a.z)
            re += a.fraction * (fr * math.cos(ph) - fi * math.sin(ph))
            im += a.fraction * (fr * math.sin(ph) + fi * math.cos(ph))
            scale += a.fraction * (abs(fr) + abs(fi))
        if abs(F.re - re) > 1e-10 * scale + 1e-300 or abs(F.im - im) > 1e-10 * scale + 1e-300:
            return ("F:explicit-sum", dict(case, flags=list(flags)), [re, im], [F.re, F.im])
        Fs[flags] = (F.re, F.im, scale)
    if not available:
        st.cls("factors_unavailable")
        return None
    s = Fs[(2, 2, 2)][2] + 1e-300
    add = [Fs[(2, 0, 0)][i] + Fs[(0, 2, 0)][i] + Fs[(0, 0, 2)][i] for i in (0, 1)]
    if abs(add[0] - Fs[(2, 2, 2)][0]) > 1e-10 * s or abs(add[1] - Fs[(2, 2, 2)][1]) > 1e-10 * s:
        return ("F:additivity", case, list(Fs[(2, 2, 2)][:2]), add)
    Ffull, ef = L.call("Crystal_F_H_StructureFactor", cp, E, h, k, l, debye, rel)
    if ef is not None or (Ffull.re, Ffull.im) != Fs[(2, 2, 2)][:2]:
        return ("F:full-vs-partial222", case, list(Fs[(2, 2, 2)][:2]), [Ffull.re, Ffull.im])
    for nm, f in env.extra.items():
        out = xrl.xrlComplex()
        if nm.endswith("Partial2"):
            f(cp, E, h, k, l, debye, rel, 2, 2, 2, byref(out), None)
        else:
            f(cp, E, h, k, l, debye, rel, byref(out), None)
        if (out.re, out.im) != Fs[(2, 2, 2)][:2]:
            return ("F:out-parameter-variant:" + nm, case, list(Fs[(2, 2, 2)][:2]), [out.re, out.im])
    # Friedel with the absorptive term switched off
    Fm, e1 = L.call("Crystal_F_H_StructureFactor_Partial", cp, E, -h, -k, -l, debye, rel, 2, 2, 0)
    Fp = Fs[(2, 2, 0)]
    if e1 is not None or abs(Fm.re - Fp[0]) > 1e-10 * s or abs(Fm.im + Fp[1]) > 1e-10 * s:
        return ("F:friedel", case, [Fp[0], -Fp[1]], dict(value=[Fm.re, Fm.im], error=e1))
    if zero:
        exp = sum(cs.atom[i].fraction * cs.atom[i].Zatom for i in range(cs.n_atom)) * debye
        if abs(Fs[(2, 0, 0)][0] - exp) > 1e-11 * exp or abs(Fs[(2, 0, 0)][1]) > 1e-11 * exp:
            return ("F:000", case, exp, list(Fs[(2, 0, 0)][:2]))
    # invalid flags are errors
    for flags in ((3, 2, 2), (2, 1, 2), (2, 2, 1), (-1, 0, 0)):
        F, ef = L.call("Crystal_F_H_StructureFactor_Partial", cp, E, h, k, l, debye, rel, *flags)
        if ef is None or F.re != 0.0 or F.im != 0.0:
            return ("F:invalid-flags-noerror", dict(case, flags=list(flags)), "error and {0,0}", dict(value=[F.re, F.im], error=ef))
    nel = len({cs.atom[i].Zatom for i in range(cs.n_atom)})
    if not zero and (nel >= 2 or any(abs(x - 90.0) > 1e-9 for x in (cs.alpha, cs.beta, cs.gamma))):
        st.nt_key(cs.name, h, k, l, round(math.log(E), 1), debye, rel)
    st.cls("structure_factor_checked")
    return None


# ------------------------------------------------------------------------------------------------ generators
MILLER = hs.integers(-6, 6)
E_ST = hs.one_of(hs.floats(-1.0, math.log10(200.0)).map(lambda x: 10.0 ** x), hs.sampled_from([0.1, 1.0, 8.0, 8.047, 17.479, 200.0]))
DEBYE = hs.one_of(hs.just(1.0), hs.floats(0.05, 1.0), hs.sampled_from([0.0, -1.0]))
REL = hs.one_of(hs.floats(0.01, 2.0), hs.floats(0.01, 2.0), hs.sampled_from([0.0, -0.0, 1.0, -0.5, 1e-9]))


@hs.composite
def cell_strategy(draw):
    a, b, c = [draw(hs.floats(2.0, 30.0)) for _ in range(3)]
    # angles: generic values and the exact crystallographic ones (30, 45, 60, 90, 120, 135, 150 degrees: rhombohedral / primitive fcc, hexagonal
    # and monoclinic settings), for which an implementation might take a shortcut
    special = hs.sampled_from([30.0, 45.0, 60.0, 90.0, 120.0, 135.0, 150.0, 90.0005, 89.9995, 90.0002, 89.9992, 90.01, 60.0004, 119.9995])   # and near misses of them
    kind = draw(hs.integers(0, 9))
    if kind == 0:
        # all three angles special and valid as a triple: rhombohedral alpha=beta=gamma in {60, 90}, hexagonal in both settings, monoclinic
        al, be, ga = draw(hs.sampled_from([(60.0, 60.0, 60.0), (90.0, 90.0, 60.0), (90.0, 90.0, 120.0), (90.0, 60.0, 90.0), (60.0, 90.0, 90.0), (90.0, 120.0, 90.0),
                                          (90.0, 90.0, 30.0), (90.0, 150.0, 90.0), (45.0, 90.0, 90.0), (60.0, 60.0, 90.0), (90.0, 90.0, 90.0), (30.0, 90.0, 90.0)]))
        natom = draw(hs.integers(1, 8))
        atoms = []
        for _ in range(natom):
            atoms.append((draw(hs.integers(1, 98)), draw(hs.one_of(hs.just(1.0), hs.floats(0.05, 1.0))), draw(hs.floats(0.0, 1.0)), draw(hs.floats(0.0, 1.0)), draw(hs.floats(0.0, 1.0))))
        return (a, b, c, al, be, ga), atoms
    al = draw(hs.one_of(hs.just(90.0), hs.floats(50.0, 130.0), special))
    be = draw(hs.one_of(hs.just(90.0), hs.floats(50.0, 130.0)))
    t = draw(hs.one_of(hs.just(None), hs.floats(-0.98, 0.98)))
    ca, cb = cosd(al), cosd(be)
    sa2, sb2 = 1 - ca * ca, 1 - cb * cb
    if t is None:
        ga = 90.0
        if sa2 * sb2 - (0.0 - ca * cb) ** 2 <= 0.05:
            ga = math.degrees(math.acos(ca * cb))
    else:
        cg = ca * cb + t * math.sqrt(sa2 * sb2 - 0.05)
        ga = math.degrees(math.acos(max(-1.0, min(1.0, cg))))
    natom = draw(hs.integers(1, 8))
    atoms = []
    for _ in range(natom):
        z = draw(hs.integers(1, 98))
        fr = draw(hs.one_of(hs.just(1.0), hs.floats(0.05, 1.0)))
        atoms.append((z, fr, draw(hs.floats(0.0, 1.0)), draw(hs.floats(0.0, 1.0)), draw(hs.floats(0.0, 1.0))))
    return (a, b, c, al, be, ga), atoms


def work(item):
    lib_path, src, part, n, seed = item
    env = Env(lib_path, src)
    L = env.L
    st = Stats()
    sv = mix(seed, "c13", part) % (2**31)
    if part[0] == "builtin":
        rng = random.Random(sv)
        for nm in env.names[part[1]::part[2]]:
            cp = env.builtin(nm)
            if not cp:
                st.violation("builtin:missing", dict(name=nm))
                continue
            hkls = [(0, 0, 0), (1, 1, 1), (2, 2, 0), (4, 0, 0), (-1, 2, -3), (6, 6, 6), (0, 0, 1), (1, 0, 0), (0, 1, 0)] + \
                   [tuple(rng.randint(-6, 6) for _ in range(3)) for _ in range(n)]
            for hkl in hkls:
                for E in (8.0, 0.3, 10.0 ** rng.uniform(-1, math.log10(200)), 10.0 ** rng.uniform(0.3, math.log10(200))):
                    r = check_geometry(st, env, cp, hkl, E, True)
                    if r:
                        st.violation(*r)
                    r = check_structure_factor(st, env, cp, hkl, E, rng.choice([1.0, 1.0, rng.uniform(0.1, 1.0), 0.0, -1.0]), rng.choice([1.0, rng.uniform(0.05, 2.0)]), True)
                    if r:
                        st.violation(*r)
            st.sample("builtin", dict(name=nm.decode(), hkl=list(hkls[4])), cap=2)
            L.fn["Crystal_Free"](cp)
        # NULL crystal and non-positive energy are errors, never crashes
        for fn, args in (("Crystal_dSpacing", (None, 1, 1, 1)), ("Crystal_dSpacing", (None, 0, 0, 0)), ("Crystal_UnitCellVolume", (None,)),
                         ("Bragg_angle", (None, 8.0, 1, 1, 1)), ("Q_scattering_amplitude", (None, 8.0, 1, 1, 1, 1.0)),
                         ("Crystal_F_H_StructureFactor", (None, 8.0, 1, 1, 1, 1.0, 1.0)), ("Crystal_F_H_StructureFactor", (None, 8.0, 0, 0, 0, 1.0, 1.0)),
                         ("Crystal_F_H_StructureFactor_Partial", (None, 8.0, 0, 0, 0, 1.0, 1.0, 2, 2, 2)), ("Crystal_MakeCopy", (None,))):
            if part[1] != 0:
                break
            st.ev()
            v, err = L.call(fn, *args)
            if err is None:
                st.violation("null-crystal-noerror:" + fn, dict(fn=fn, args=[a for a in args if a is not None]), "error", None)
        return st

    coll = dict(arr=None, n=0)

    def prop(st, cellatoms, h, k, l, E, debye, rel, via):
        cell, atoms = cellatoms
        cs = env.make(b"gen", cell, atoms)
        cp = byref(cs)
        got = None
        if via < 600:
            # "user supplied" also means: handed to a user-owned collection and looked up again.  The collection must store the recomputed
            # volume (the struct is handed over with a stale one) and return the same geometry; names land before, between and after the others
            if coll["arr"] is None or coll["n"] >= 40:
                if coll["arr"] is not None:
                    L.fn["Crystal_ArrayFree"](coll["arr"])
                coll["arr"], _ = L.call("Crystal_ArrayInit", 3)
                coll["n"] = 0
            coll["n"] += 1
            nm = ("%03d_g%d" % (via, coll["n"])).encode()
            vtrue = cs.volume
            cs.name = nm
            cs.volume = -7.0
            rv, err = L.call("Crystal_AddCrystal", cp, coll["arr"])
            cs.volume = vtrue
            if rv != 1:
                return ("collection:add-rejected", dict(describe(cs)), "1", dict(rv=rv, error=err))
            got, err = L.call("Crystal_GetCrystal", nm, coll["arr"])
            if not got:
                return ("collection:lookup-failed", dict(describe(cs)), "entry", err)
            st.cls("through_collection")
            cp = got
        r = check_geometry(st, env, cp, (h, k, l), E, False)
        if got:
            L.fn["Crystal_Free"](got)
            cp = byref(cs)
        if r:
            return r
        # a query never writes to the crystal it is given - also not to "complete" a hand-made struct whose volume member is 0
        snap = lambda c: (c.name, c.a, c.b, c.c, c.alpha, c.beta, c.gamma, c.volume, c.n_atom, tuple((c.atom[i].Zatom, c.atom[i].fraction, c.atom[i].x, c.atom[i].y, c.atom[i].z) for i in range(c.n_atom)))
        vkeep = cs.volume
        if via % 7 == 0:
            cs.volume = 0.0
        s0 = snap(cs)
        L.call("Crystal_dSpacing", cp, h, k, l); L.call("Bragg_angle", cp, E, h, k, l); L.call("Q_scattering_amplitude", cp, E, h, k, l, rel)
        L.call("Crystal_F_H_StructureFactor", cp, E, h, k, l, debye, rel); L.call("Crystal_UnitCellVolume", cp)
        s1 = snap(cs)
        cs.volume = vkeep
        st.ev()
        if s1 != s0:
            return ("input-modified", dict(describe(cs), hkl=[h, k, l], E=E, volume_given=s0[7]), "crystal struct unchanged by queries", dict(volume_after=s1[7]))
        if via % 5 == 2 and (h, k, l) != (0, 0, 0):
            # the same cell with one more atom the library has no form factor for (or no element at all), never in first position: the structure
            # factor must fail as a whole ({0,0} and an error) - and leave nothing behind for the valid crystal evaluated right after it
            badz = (99, 100, 103, 0, 130, -1)[via % 6]
            cs_bad = env.make(b"gen-bad", cell, list(atoms) + [(badz, 1.0, 0.1, 0.2, 0.3)])
            st.ev()
            Fb, eb = L.call("Crystal_F_H_StructureFactor", byref(cs_bad), max(E, 1.0), h, k, l, 1.0, rel)
            if eb is None or Fb.re != 0.0 or Fb.im != 0.0:
                return ("F:unusable-atom", dict(describe(cs_bad), hkl=[h, k, l], E=max(E, 1.0), bad_Z=badz), "error and {0,0}", dict(value=[Fb.re, Fb.im], error=eb))
            st.cls("unusable_atom_cases")
        r = check_structure_factor(st, env, cp, (h, k, l), E, debye, rel, False)
        if r is None:
            st.sample("generated", dict(cell=list(cell), natoms=len(atoms), hkl=[h, k, l], E=max(E, 1.0)), cap=2)
        return r
    kk = hyp.run_property(st, "generated", dict(cellatoms=cell_strategy(), h=MILLER, k=MILLER, l=MILLER, E=E_ST, debye=DEBYE, rel=REL, via=hs.integers(0, 999)), prop, n, sv)
    st.cls("examples_generated", kk)
    return st


def run(ctx):
    n = 1500 if ctx.quick else 12000
    ctx.rule = ("38 built-in crystals x 9 fixed + %d seeded Miller triples in [-6,6]^3 x 4 energies in [0.1,200] keV x Debye {1, (0,1], 0, -1} x "
                "rel_angle; Hypothesis-generated valid triclinic cells (a,b,c in [2,30] A, angles constructed so that the Gram determinant > 0.05, "
                "1-8 atoms, Z 1..98, occupancy (0,1]) x Miller x E x Debye x rel_angle, %d examples x 12 workers. Relations: d(-h)=d(h), d(nh)=d/n, "
                "reciprocal-metric d and volume, Bragg's law or error when lambda>2d, explicit structure-factor sum over 7 flag combinations, "
                "additivity, Friedel, F(000), out-parameter variants, invalid flags/debye/NULL crystal are errors. non-trivial = real reflection "
                "on a cell with >=2 elements or oblique angles, distinct by (crystal, hkl, E bucket, debye, rel_angle)" % (6 if ctx.quick else 40, n))
    b = ctx.build("plain", "A")
    items = [(b["lib"], b["src"], ("builtin", k, 8), 6 if ctx.quick else 40, ctx.seed) for k in range(8)]
    items += [(b["lib"], b["src"], ("gen", k), n, ctx.seed) for k in range(12 if ctx.quick else 24)]
    ctx.stats.merge(common.pmap(work, items))
    ctx.assumptions = ["atomic factors are taken from the library's own Atomic_Factors / Q_scattering_amplitude (FF_Rayl, Fi, Fii decided by C02)",
                       "built-in cell volumes passed through a %f literal: 1e-6 tolerance there, 1e-10/1e-11 for generated cells"]


def replay(ctx, rec):
    b = ctx.build("plain", "A")
    env = Env(b["lib"], b["src"])
    c = rec["case"]
    st = Stats()
    cr = c.get("crystal")
    if cr is None:
        st2 = work((b["lib"], b["src"], ("builtin", 0, 8), 2, 1))
        return not [v for v in st2.violations if v["sig"] == rec["signature"]]
    if cr["name"] and cr["name"].encode() in env.names:
        cp = env.builtin(cr["name"].encode())
        builtin = True
    else:
        cs = env.make(b"gen", cr["cell"], [tuple(a) for a in cr["atoms"]])
        cp = byref(cs)
        builtin = False
    r = check_geometry(st, env, cp, tuple(c["hkl"]), c["E"], builtin)
    if r is None:
        r = check_structure_factor(st, env, cp, tuple(c["hkl"]), c["E"], c.get("debye", 1.0), c.get("rel_angle", 1.0), builtin)
    print("replay:", r)
    return r is None
