"""C07 - the formula parser computes the true composition of every well-formed formula.
Exhaustive singles/pairs, Hypothesis grammar formulas with algebraic rewrites, single-character mutations classified by a strict reference
recogniser (three-way verdict), add_compound_data, numeric-locale preservation."""
import ctypes, math, os, random, re
from fractions import Fraction
from hypothesis import strategies as hs
import common, vbuild, xrl, hyp, formulas
from common import Stats, mix

TOL = 1e-12
LC_ALL, LC_NUMERIC = 6, 1
libc = ctypes.CDLL(None)
libc.setlocale.restype = ctypes.c_char_p
libc.setlocale.argtypes = [ctypes.c_int, ctypes.c_char_p]
TEST_LOCALE = b"C.utf8"
COMMA = None      # dict(LOCPATH, name) of the decimal-comma locale built by run() (lib/localetool.py), or None


def get_locale():
    return (libc.setlocale(LC_NUMERIC, None), libc.setlocale(LC_ALL, None))


class Env:
    def __init__(self, lib_path, src):
        self.h = xrl.Headers(src)
        self.L = xrl.Lib(lib_path, self.h)
        aw = xrl.DataFiles(src).scalar2("atomicweight.dat")
        self.aw = {z: xrl.round11(v) for z, v in aw.items() if v > 0}
        self.mendel_max = self.h.val["MENDEL_MAX"]
        libc.setlocale(LC_ALL, self.test_locale)
        self.locale0 = get_locale()

    test_locale = TEST_LOCALE

    def parse(self, s):
        """-> (dict(elements, nAtoms, nAtomsAll, molarMass, massFractions) | None, err)"""
        L = self.L
        slot = ctypes.c_void_p(None)
        b = s if isinstance(s, bytes) else s.encode("latin-1")
        cd = L.fn["CompoundParser"](b, ctypes.byref(slot))
        err = None
        if slot.value:
            e = ctypes.cast(slot, ctypes.POINTER(xrl.XrlError)).contents
            err = (e.code, e.message)
            L._free(slot)
        if not cd:
            return None, err
        c = cd.contents
        n = c.nElements
        r = dict(elements=[c.Elements[i] for i in range(n)], nAtoms=[c.nAtoms[i] for i in range(n)], nAtomsAll=c.nAtomsAll,
                 molarMass=c.molarMass, massFractions=[c.massFractions[i] for i in range(n)])
        L.fn["FreeCompoundData"](cd)
        return r, err

    def parse_noslot(self, s):
        """the same call without an error slot: -> composition dict or None"""
        L = self.L
        b = s if isinstance(s, bytes) else s.encode("latin-1")
        cd = L.fn["CompoundParser"](b, None)
        if not cd:
            return None
        c = cd.contents
        n = c.nElements
        r = dict(elements=[c.Elements[i] for i in range(n)], nAtoms=[c.nAtoms[i] for i in range(n)], nAtomsAll=c.nAtomsAll,
                 molarMass=c.molarMass, massFractions=[c.massFractions[i] for i in range(n)])
        L.fn["FreeCompoundData"](cd)
        return r

    def locale_changed(self):
        now = get_locale()
        if now != self.locale0:
            libc.setlocale(LC_ALL, self.test_locale)
            return now
        return None


def expected_from_counts(env, cnt):
    zs = sorted(cnt)
    n = [float(cnt[z]) for z in zs]
    M = sum(float(cnt[z]) * env.aw[z] for z in zs)
    return dict(elements=zs, nAtoms=n, nAtomsAll=float(sum(cnt.values())), molarMass=M, massFractions=[float(cnt[z]) * env.aw[z] / M for z in zs])


def close(a, b, tol=TOL):
    return xrl.relerr(a, b) <= tol


def compare(res, exp):
    """-> None or (what, expected, got)"""
    if res["elements"] != exp["elements"]:
        return ("elements", exp["elements"], res["elements"])
    for k in ("nAtoms", "massFractions"):
        for a, b in zip(res[k], exp[k]):
            if not (math.isfinite(a) and close(a, b)):
                return (k, exp[k], res[k])
    for k in ("nAtomsAll", "molarMass"):
        if not (math.isfinite(res[k]) and close(res[k], exp[k])):
            return (k, exp[k], res[k])
    if any(not (f > 0) for f in res["massFractions"]) or abs(sum(res["massFractions"]) - 1.0) > 1e-12:
        return ("fractions-sum", 1.0, sum(res["massFractions"]))
    return None


def consistent(res):
    """internal consistency required of any accepted result (UNSPECIFIED class)"""
    e = res["elements"]
    if e != sorted(set(e)) or not e:
        return "elements not strictly ascending"
    if any(not (math.isfinite(f) and f > 0) for f in res["massFractions"]) or abs(sum(res["massFractions"]) - 1.0) > 1e-9:
        return "mass fractions not positive / not summing to 1"
    if any(not (math.isfinite(x) and x > 0) for x in res["nAtoms"]) or not close(sum(res["nAtoms"]), res["nAtomsAll"], 1e-9):
        return "atom counts inconsistent"
    if not (math.isfinite(res["molarMass"]) and res["molarMass"] > 0):
        return "molar mass not positive"
    return None


# ------------------------------------------------------------------------------------------- strict reference recogniser
SUB_RE = re.compile(rb"[0-9]+\.[0-9]+|\.[0-9]+|[0-9]+")


def strict_parse(b, weighable):
    """-> ('accept', counts) | ('reject', reason) | ('unspec', reason)"""
    if len(b) == 0:
        return ("reject", "empty")
    if re.search(rb"[^A-Za-z0-9().]", b):
        return ("reject", "alphabet")
    depth = 0
    for ch in b:
        if ch == 0x28:
            depth += 1
        elif ch == 0x29:
            depth -= 1
            if depth < 0:
                return ("reject", "unbalanced")
    if depth != 0:
        return ("reject", "unbalanced")
    if b"()" in b:
        return ("reject", "empty-parentheses")
    if b[0:1].islower() or b[0:1].isdigit():
        return ("reject", "leading digit/lowercase")
    for m in re.finditer(rb"[A-Z][a-z]*", b):
        sym = m.group(0).decode()
        if sym not in formulas.Z_OF:
            return ("reject", "unknown symbol " + sym)
    # a lowercase letter that does not belong to a symbol (e.g. ")a0") makes everything after it unspecified: the rules on subscripts
    # below only speak about numbers that follow a symbol or a closing parenthesis
    if re.search(rb"[A-Z][a-z][a-z]", b) or re.search(rb"(^|[^A-Za-z])[a-z]", b):
        return ("unspec", "stray lowercase")
    for m in re.finditer(rb"[0-9.]+", b):
        t = m.group(0)
        if m.start() == 0 or b[m.start() - 1:m.start()] == b"(":
            continue  # not in subscript position (nothing to be the subscript of): unspecified, handled below
        if t.count(b".") >= 2:
            return ("reject", "two dots")
        if t == b".":
            return ("reject", "lone dot")
        if not re.search(rb"[1-9]", t) and re.fullmatch(rb"[0-9]*\.?[0-9]*", t):
            return ("reject", "zero subscript")
    # full strict grammar
    pos = 0

    def formula(pos, top):
        out = {}
        nterms = 0
        while pos < len(b):
            ch = b[pos:pos + 1]
            if ch == b"(":
                sub, pos = formula(pos + 1, False)
                if sub is None or pos >= len(b) or b[pos:pos + 1] != b")":
                    return None, pos
                pos += 1
                m = SUB_RE.match(b, pos)
                mult = Fraction(1)
                if m:
                    mult = Fraction(m.group(0).decode())
                    pos = m.end()
                for z, c in sub.items():
                    out[z] = out.get(z, 0) + c * mult
            elif ch.isupper():
                m = re.compile(rb"[A-Z][a-z]?").match(b, pos)
                sym = m.group(0).decode()
                if sym not in formulas.Z_OF:
                    sym = sym[0]
                    if sym not in formulas.Z_OF:
                        return None, pos
                    pos += 1
                else:
                    pos = m.end()
                m = SUB_RE.match(b, pos)
                mult = Fraction(1)
                if m:
                    mult = Fraction(m.group(0).decode())
                    pos = m.end()
                z = formulas.Z_OF[sym]
                out[z] = out.get(z, 0) + mult
            elif ch == b")" and not top:
                break
            else:
                return None, pos
            nterms += 1
        if nterms == 0:
            return None, pos
        return out, pos

    # symbols must tokenise uniquely as [A-Z][a-z]? : a capital followed by two lowercase letters is not a symbol
    if re.search(rb"[A-Z][a-z][a-z]", b) or re.search(rb"(^|[^A-Za-z])[a-z]", b) or re.search(rb"[0-9.)(][a-z]", b):
        return ("unspec", "stray lowercase")
    if re.search(rb"[0-9]\.($|[^0-9])", b):
        return ("unspec", "trailing dot")
    if re.search(rb"\([0-9.]", b) or re.match(rb"[0-9.]", b):
        return ("unspec", "number not in subscript position")
    cnt, pos = formula(0, True)
    if cnt is None or pos != len(b):
        return ("unspec", "not in strict grammar")
    if any(c <= 0 for c in cnt.values()):
        return ("reject", "zero subscript")
    if any(z not in weighable for z in cnt):
        return ("reject", "element without atomic weight")
    # two-letter tokenisation ambiguity (e.g. "Co" vs "C"+"o") cannot arise: lowercase only follows a capital
    return ("accept", cnt)


def judge_string(st, env, b, origin):
    """three-way verdict on an arbitrary byte string without NUL"""
    st.ev()
    verdict, info = strict_parse(b, env.aw)
    res, err = env.parse(b)
    loc = env.locale_changed()
    case = dict(formula=b.decode("latin-1"), origin=origin)
    if loc is not None:
        return ("locale-not-restored", case, [x.decode() for x in env.locale0], [x.decode() if x else None for x in loc])
    if (res is None) != (err is not None):
        return ("error-iff-null", case, "NULL <=> error", dict(result=res, error=err))
    res2 = env.parse_noslot(b)
    if repr(res2) != repr(res):      # repr: NaN-safe, bit-exact for floats
        return ("noslot-differs", case, res, res2)
    if verdict == "accept":
        st.cls("must_accept")
        if res is None:
            return ("rejected-wellformed", case, "accepted", err)
        d = compare(res, expected_from_counts(env, info))
        if d:
            return ("composition:" + d[0], case, d[1], d[2])
        return None
    if verdict == "reject":
        st.cls("must_reject:" + info.split(" ")[0])
        if res is not None:
            return ("accepted-malformed:" + info.split(" ")[0], dict(case, reason=info), "NULL and an error", res)
        if err[0] != env.h_invalid:
            return ("error-code", case, env.h_invalid, err)
        return None
    st.cls("unspecified")
    if res is not None:
        c = consistent(res)
        if c:
            return ("inconsistent-result", dict(case, why=info), c, res)
    return None


def work(item):
    lib_path, src, part, n, seed = item
    if COMMA and isinstance(part, tuple) and part[0] in ("grammar", "mutants") and part[1] % 2 == 1:
        # this worker's process runs under a locale whose decimal separator is a comma: subscripts are written with '.', whatever the locale
        os.environ["LOCPATH"] = COMMA["LOCPATH"]
        Env.test_locale = COMMA["name"].encode()
    env = Env(lib_path, src)
    env.h_invalid = 1  # XRL_ERROR_INVALID_ARGUMENT (second enumerator of xrl_error_code)
    st = Stats()
    sv = mix(seed, "c07", part) % (2**31)
    weighable = [s for s in formulas.SYMBOLS if formulas.Z_OF[s] in env.aw]
    unweighable = [s for s in formulas.SYMBOLS if formulas.Z_OF[s] not in env.aw]
    if part == "singles":
        for s in formulas.SYMBOLS:
            r = judge_string(st, env, s.encode(), "single")
            if r:
                st.violation(*r)
            st.nt()
        # symbol <-> table consistency of the library itself is C15; here: neighbours that are not symbols
        for s in ("h", "HE", "Xx", "A", "J", "Q", "Zz", "D", "Uuo"):
            r = judge_string(st, env, s.encode(), "non-symbol")
            if r:
                st.violation(*r)
        return st
    if part[0] == "collide":
        # pairs of different well-formed formulas that a lookup keyed by less than the whole string confuses: same length and same value under a
        # common string hash (djb2, x31, x37, x131, sdbm, FNV-1a, all mod 2^32), same multiset of characters, same character sum.  One right
        # after the other, both ways: each must get its own composition (judged by the strict recogniser as everywhere else).
        M = 2 ** 32

        def mult(m0, h0):
            def f(s):
                h = h0
                for ch in s:
                    h = (h * m0 + ch) % M
                return h
            return f

        def fnv(s):
            h = 2166136261
            for ch in s:
                h = ((h ^ ch) * 16777619) % M
            return h
        keys = {"djb2": mult(33, 5381), "x31": mult(31, 0), "x37": mult(37, 0), "x131": mult(131, 0), "sdbm": mult(65599, 0), "fnv1a": fnv,
                "multiset": lambda s: bytes(sorted(s)), "sum": lambda s: sum(s), "xor": lambda s: __import__("functools").reduce(lambda a, b: a ^ b, s, 0)}
        pal1 = [s for s in ("H C N O F Na Mg Al Si P S Cl K Ca Ti Cr Mn Fe Co Ni Cu Zn Ga Ge As Se Br Sr Y Zr Mo Ag Cd In Sn Sb I Ba La Ce W Pt Au Hg Pb Bi U".split())]
        subs1 = ["", "2", "3", "4", "5", "6", "7", "8", "9"]
        t1 = [a + b for a in pal1 for b in subs1]
        cand = set(t1)
        cand.update(a + b for a in t1 for b in t1)
        pal2 = "H C N O S Si Ca Fe Cd Ce Cu".split()
        t2 = [a + b for a in pal2 for b in ("", "2", "3")]
        cand.update(a + b + c for a in t2 for b in t2 for c in t2)
        cand = sorted(c.encode() for c in cand)
        comp = {}
        for c in cand:
            v, info = strict_parse(c, env.aw)
            if v == "accept":
                comp[c] = tuple(sorted(info.items()))
        rng = random.Random(mix(seed, "c07-collide"))
        for kname, kf in sorted(keys.items()):
            groups = {}
            for c in comp:
                groups.setdefault((len(c), kf(c)), []).append(c)
            pairs = []
            for g in groups.values():
                if len(g) < 2:
                    continue
                g = sorted(g)
                rng.shuffle(g)
                for a, b in zip(g, g[1:]):
                    if comp[a] != comp[b]:
                        pairs.append((a, b))
            rng.shuffle(pairs)
            st.cls("collision_pairs:" + kname, len(pairs[:60]))
            for a, b in pairs[:60]:
                for x, y in ((a, b), (b, a)):
                    judge_string(st, env, x, "collide")
                    r = judge_string(st, env, y, "collide:%s after %s" % (kname, x.decode()))
                    if r:
                        st.violation(*r)
                st.nt_key("collide", a, b)
        st.sample("collide", dict(example="CdSO4 then Ce2O4 (djb2)"), cap=1)
        return st
    if part[0] == "pairs":
        k, m = part[1], part[2]
        for i, a in enumerate(formulas.SYMBOLS):
            if i % m != k:
                continue
            for b in formulas.SYMBOLS:
                r = judge_string(st, env, (a + b).encode(), "pair")
                if r:
                    st.violation(*r)
                st.nt()
        st.sample("pair", dict(formula="CaO"), cap=1)
        return st
    tree_st = formulas.formula_strategy(weighable, max_depth=5)

    if part[0] == "grammar":
        def prop(st, tree, perm_seed):
            s = formulas.render(tree)
            if len(s) > 120:
                return None
            r = judge_string(st, env, s.encode(), "grammar")
            if r:
                return r
            res, _ = env.parse(s)
            nt = formulas.depth(tree) >= 1 or formulas.has_fraction(tree) or len(formulas.counts(tree)) < sum(1 for _ in re.finditer("[A-Z]", s))
            if nt:
                st.nt_key(s)
                st.sample("grammar:depth%d" % min(formulas.depth(tree), 3), dict(formula=s, elements=res["elements"], nAtoms=res["nAtoms"]), cap=1)
            # rewrites: permutation of terms, expansion of one group
            t2 = formulas.permute(tree, random.Random(perm_seed))
            s2 = formulas.render(t2)
            r2, e2 = env.parse(s2)
            if r2 is None:
                return ("rewrite:permute-rejected", dict(formula=s, rewritten=s2), "accepted", e2)
            d = compare(r2, res)
            if d:
                return ("rewrite:permute:" + d[0], dict(formula=s, rewritten=s2), d[1], d[2])
            t3 = formulas.expand_one_group(tree)
            if t3 is not None:
                s3 = formulas.render(t3)
                r3, e3 = env.parse(s3)
                if r3 is None:
                    return ("rewrite:expand-rejected", dict(formula=s, rewritten=s3), "accepted", e3)
                d = compare(r3, res)
                if d:
                    return ("rewrite:expand:" + d[0], dict(formula=s, rewritten=s3), d[1], d[2])
                st.cls("rewrite_expand")
            st.cls("rewrite_permute")
            return None
        k = hyp.run_property(st, "grammar", dict(tree=tree_st, perm_seed=hs.integers(0, 2**30)), prop, n, sv)
        st.cls("examples_grammar", k)

        # elements without an atomic weight must be rejected
        def prop_unw(st, tree, sym, pos):
            s = formulas.render(tree)
            ups = [m.start() for m in re.finditer("[A-Z(]", s)] + [len(s)]
            p = ups[pos % len(ups)]
            s2 = s[:p] + sym + s[p:]
            return judge_string(st, env, s2.encode(), "unweighable")
        if unweighable:
            hyp.run_property(st, "unweighable", dict(tree=tree_st, sym=hs.sampled_from(unweighable), pos=hs.integers(0, 50)), prop_unw, max(50, n // 10), sv + 1)
        return st
    if part[0] == "mutants":
        def edit(s, kind, pos, byte):
            p = pos % (len(s) + 1)
            if kind == 0:
                return s[:p] + bytes([byte]) + s[p:]
            if kind == 1 and len(s) > 1:
                p = pos % len(s)
                return s[:p] + s[p + 1:]
            if kind == 3 and len(s) > 1:       # transposition of two neighbours, e.g. "()" -> ")("
                p = pos % (len(s) - 1)
                return s[:p] + s[p + 1:p + 2] + s[p:p + 1] + s[p + 2:]
            p = pos % len(s)
            return s[:p] + bytes([byte]) + s[p + 1:]

        def prop(st, tree, kind, pos, byte, kind2, pos2, byte2):
            s = formulas.render(tree).encode()
            if len(s) > 120:
                return None
            m = edit(s, kind, pos, byte)
            if kind2 >= 0 and len(m) > 0:      # a second, independent edit (strings at distance 2 from a valid formula)
                m = edit(m, kind2, pos2, byte2)
            if len(m) == 0:
                return None
            pv = strict_parse(s, env.aw)[0]
            mv = strict_parse(m, env.aw)[0]
            if pv != mv:
                st.nt_key(m)
            r = judge_string(st, env, m, "mutant")
            if r is None and mv != "accept":
                st.sample("mutant:" + mv, dict(parent=s.decode(), mutant=m.decode("latin-1")), cap=2)
            return r
        interesting = list(b"().0123456789") * 6 + list(b"()") * 12 + list(range(1, 256))
        k = hyp.run_property(st, "mutants", dict(tree=tree_st, kind=hs.integers(0, 3), pos=hs.integers(0, 200), byte=hs.sampled_from(interesting),
                                                 kind2=hs.sampled_from([-1, -1, 0, 1, 2, 3]), pos2=hs.integers(0, 200), byte2=hs.sampled_from(interesting)),
                             prop, n, sv)
        st.cls("examples_mutants", k)
        return st
    if part[0] == "exhaustive_mutants":
        # every single-character insertion / deletion / substitution (bytes 1..255) of a pool of valid formulas
        pool = [b"H2O", b"Ca5(PO4)3OH", b"C6H12O6", b"(NH4)2SO4", b"Fe0.5Ni.25O1.25", b"Mg(O(OH)2)3", b"UO2(NO3)2(H2O)6", b"Co", b"LaB6"]
        for s in pool[part[1]::part[2]]:
            for p in range(len(s) + 1):
                for byte in range(1, 256):
                    for m in (s[:p] + bytes([byte]) + s[p:], (s[:p] + bytes([byte]) + s[p + 1:]) if p < len(s) else None):
                        if m is None:
                            continue
                        r = judge_string(st, env, m, "exhaustive-mutant")
                        if r:
                            st.violation(*r)
                if p < len(s):
                    r = judge_string(st, env, s[:p] + s[p + 1:], "exhaustive-mutant")
                    if r:
                        st.violation(*r)
            st.nt()
        return st
    if part[0] == "add":
        L = env.L

        def prop(st, ta, tb, wa, wb, tc=None, wc=0.5, wd=0.5, flip=False):
            st.ev()
            sa, sb = formulas.render(ta), formulas.render(tb)
            ca = L.fn["CompoundParser"](sa.encode(), None)
            cb = L.fn["CompoundParser"](sb.encode(), None)
            if not ca or not cb:
                return ("rejected-wellformed", dict(formula=sa if not ca else sb, origin="add"), "accepted", None)
            A, B = ca.contents, cb.contents
            fa = {A.Elements[i]: A.massFractions[i] for i in range(A.nElements)}
            fb = {B.Elements[i]: B.massFractions[i] for i in range(B.nElements)}
            r = L.fn["add_compound_data"](A, wa, B, wb)
            out = None
            if r:
                c = r.contents
                got_e = [c.Elements[i] for i in range(c.nElements)]
                got_f = [c.massFractions[i] for i in range(c.nElements)]
                exp_e = sorted(set(fa) | set(fb))
                exp_f = [wa * fa.get(z, 0.0) + wb * fb.get(z, 0.0) for z in exp_e]
                case = dict(A=sa, B=sb, wA=wa, wB=wb)
                if got_e != exp_e:
                    out = ("add:elements", case, exp_e, got_e)
                elif any(not close(x, y) for x, y in zip(got_f, exp_f)):
                    out = ("add:fractions", case, exp_f, got_f)
                else:
                    if set(fa) & set(fb) and set(fa) != set(fb):
                        st.nt_key("add", sa, sb)
                        st.sample("add", dict(case, elements=got_e), cap=2)
                    if tc is not None:
                        # the result is a composition like any other: used as an operand (either side) of a second combination, the same law
                        # holds for what it contains - including elements that a weight of exactly 0 left with fraction 0
                        sc = formulas.render(tc)
                        cc = L.fn["CompoundParser"](sc.encode(), None)
                        if cc:
                            C = cc.contents
                            fc = {C.Elements[i]: C.massFractions[i] for i in range(C.nElements)}
                            fr = dict(zip(got_e, got_f))
                            r2 = L.fn["add_compound_data"](C, wc, c, wd) if flip else L.fn["add_compound_data"](c, wd, C, wc)
                            case2 = dict(case, then=dict(C=sc, wC=wc, w_first_result=wd, first_result_is="B" if flip else "A", first_result=dict(elements=got_e, fractions=got_f)))
                            if not r2:
                                out = ("add:null", case2, "a composition", None)
                            else:
                                c2 = r2.contents
                                g_e = [c2.Elements[i] for i in range(c2.nElements)]
                                g_f = [c2.massFractions[i] for i in range(c2.nElements)]
                                e_e = sorted(set(fr) | set(fc))
                                e_f = [wd * fr.get(z, 0.0) + wc * fc.get(z, 0.0) for z in e_e]
                                if g_e != e_e:
                                    out = ("add:elements", case2, e_e, g_e)
                                elif any(not close(x, y) for x, y in zip(g_f, e_f)):
                                    out = ("add:fractions", case2, e_f, g_f)
                                else:
                                    st.cls("add_chained")
                                    if 0.0 in got_f:
                                        st.cls("add_chained_zero_fraction_operand")
                                L.fn["FreeCompoundData"](r2)
                            L.fn["FreeCompoundData"](cc)
                L.fn["FreeCompoundData"](r)
            else:
                out = ("add:null", dict(A=sa, B=sb), "a composition", None)
            L.fn["FreeCompoundData"](ca)
            L.fn["FreeCompoundData"](cb)
            return out
        w = hs.one_of(hs.floats(0.01, 0.99), hs.floats(0.01, 0.99), hs.sampled_from([0.0, 1.0]))
        k = hyp.run_property(st, "add", dict(ta=tree_st, tb=tree_st, wa=w, wb=w, tc=tree_st, wc=w, wd=w, flip=hs.booleans()), prop, n, sv)
        st.cls("examples_add", k)
        return st
    return st


def build_diff_fuzzer(ctx, bf):
    exe = os.path.join(ctx.sdir, "fuzz_formula_diff")
    cmd = ["clang++", "-std=gnu++17", "-g", "-O1", "-fsanitize=fuzzer,address,undefined", "-fno-sanitize-recover=undefined"] + ["-I" + i for i in bf["incs"]] + \
          [os.path.join(common.VERIF, "fuzz", "fuzz_formula_diff.cpp"), bf["lib"], "-lm", "-o", exe]
    rc, out = vbuild.run(cmd)
    if rc != 0:
        raise vbuild.BuildError("fuzz target formula_diff failed to build\n%s" % out[-3000:])
    return exe


def run(ctx):
    n = 1200 if ctx.quick else 40000
    ctx.rule = ("(a) exhaustive: 107 single symbols and all 107^2 ordered pairs; (b) Hypothesis grammar formulas (depth <= 5, length <= 120, integer / "
                "fractional / leading-dot subscripts) each also permuted and with one group expanded, plus insertion of an element without atomic "
                "weight; (c) Hypothesis single-character insert/delete/substitute mutants (bytes 1..255) and the exhaustive mutant set of 9 pool "
                "formulas, classified MUST-ACCEPT / MUST-REJECT / UNSPECIFIED by a strict reference recogniser; (d) add_compound_data on "
                "generated pairs and chains; (d') pairs of different formulas of equal length that collide under common string hashes / character multisets, one right after the other; numeric locale (C.utf8, or a generated decimal-comma locale in every second grammar / mutant worker) compared before/after every call. Oracle: exact Fraction expansion, weights from "
                "atomicweight.dat, 1e-12. non-trivial = formula with a group / repeated element / fractional subscript; mutant whose verdict "
                "differs from its parent's; pair/single (distinct by string)")
    b = ctx.build("plain", "A")
    global COMMA
    import localetool
    COMMA = localetool.make_comma_locale(ctx.sdir)
    ctx.extra["comma_locale"] = bool(COMMA)
    parts = ["singles", ("collide",)] + [("pairs", k, 8) for k in range(8)] + [("exhaustive_mutants", k, 3) for k in range(3)]
    reps = 4 if ctx.quick else 12
    for k in range(reps):
        parts += [("grammar", k), ("mutants", k), ("add", k)]
    if os.environ.get("VERIF_ONLY") != "fuzz":      # (debugging aid: VERIF_ONLY=fuzz runs part (e) alone)
        ctx.stats.merge(common.pmap(work, [(b["lib"], b["src"], p, n, ctx.seed) for p in parts]))
    # (e) coverage-guided differential fuzzing against a C++ port of the strict recogniser (fuzz/fuzz_formula_diff.cpp)
    import c04, concurrent.futures as cf
    bf = ctx.build("fuzz", "A")
    exe = build_diff_fuzzer(ctx, bf)
    runs = 150000 if ctx.quick else 6000000
    items = [(exe, ctx.sdir, "formula_diff", mix(ctx.seed, "c07fz", k) % (2**31 - 1) + 1, runs, k % 2 == 0, "fd%d" % k, "C07") for k in range(4 if ctx.quick else 8)]
    with cf.ThreadPoolExecutor(8) as ex:
        for st in ex.map(c04.run_fuzz, items):
            ctx.stats.merge(st)
    ctx.rule += ("; (e) libFuzzer target fuzz_formula_diff (%d processes x %d runs, with and without the seed corpus): CompoundParser against a C++ port of the "
                 "strict recogniser, same three verdicts, composition to 1e-9" % (len(items), runs))
    ctx.assumptions = ["half of the grammar / mutant workers run under a decimal-comma locale built with localedef (when localedef is missing: C.utf8 only, and then the check sees a lost restore but not a decimal-comma mis-parse)",
                       "strings outside both the strict grammar and the listed rejection classes are UNSPECIFIED (only consistency is required)"]


def replay(ctx, rec):
    if rec["signature"].startswith("fuzz:"):
        import subprocess
        exe = build_diff_fuzzer(ctx, ctx.build("fuzz", "A"))
        inp = os.path.join(ctx.sdir, "input")
        with open(inp, "wb") as f:
            f.write(bytes.fromhex(rec["case"]["input_hex"]))
        p = subprocess.run([exe, inp], stdout=subprocess.PIPE, stderr=subprocess.PIPE)
        print("replay fuzz input rc=%d" % p.returncode, p.stderr.decode("utf-8", "replace")[-300:])
        return p.returncode == 0
    b = ctx.build("plain", "A")
    env = Env(b["lib"], b["src"])
    env.h_invalid = 1
    c = rec["case"]
    st = Stats()
    if "formula" in c and not rec["signature"].startswith(("rewrite", "add")):
        r = judge_string(st, env, c["formula"].encode("latin-1"), "replay")
        print("replay:", r)
        return r is None
    if rec["signature"].startswith("rewrite"):
        r1, _ = env.parse(c["formula"])
        r2, _ = env.parse(c["rewritten"])
        ok = r1 is not None and r2 is not None and compare(r2, r1) is None
        print("replay rewrite:", r1, r2)
        return ok
    if rec["signature"].startswith("add"):
        st2 = work((b["lib"], b["src"], ("add", 0), 300, rec.get("seed", 1)))
        return not st2.violations
    return True
