"""C03 - errors are reported iff the call failed; results are finite.
Every exported function x its discrete argument space x structured samples of continuous / string / crystal arguments, each call made with a
fresh error slot, with no slot and with a pre-set slot by the universal interpreter (harness/xrlcall.cpp, ASan+UBSan build); generic oracle in
lib/apisweep.py.  The same sweep, judged for memory errors and leaks, is C04's enumeration part."""
import re
import os
import common, xrl, calls, apigen, apisweep, vbuild
from common import Stats, mix


def catalogue_names(exe, sdir, tag="x"):
    """names of the catalogues, fetched through the interpreter itself"""
    L = [calls.line("GetCompoundDataNISTList", ["out"], [0]), calls.line("GetRadioNuclideDataList", ["out"], [0]),
         calls.line("Crystal_GetCrystalsList", ["array", "out"], [0, 0])]
    out, rc, err = calls.run(exe, "simple", L, sdir, "names_" + tag)
    res = []
    for o in out:
        r = calls.parse(o)["result"]
        body = r.split(";", 1)[1].split(";oi=")[0] if r.startswith("l:") and ";" in r else ""
        res.append([bytes.fromhex(x).decode("latin-1") for x in body.split(",") if x])
    while len(res) < 3:
        res.append([])
    return res


def work(item):
    exe, src, config, fns, seed, budget, quick, sdir, mode, tag = item
    st = Stats()
    h, desc = apigen.descriptors(src)
    desc = dict(desc)
    desc["add_compound_data"] = dict(ret="struct compoundData*", args=["const char*", "double", "const char*", "double"], argnames=["compound", "weightA", "compound", "weightB"], header="xraylib-parser.h")
    desc["Crystal_ArrayInit"] = dict(ret="Crystal_Array*", args=["int", "xrl_error**"], argnames=["n_crystal_alloc", "error"], header="xraylib-crystal-diffraction.h")
    vals = apisweep.Values(h, src, mix(seed, tag))
    vals.nist_names, vals.nuc_names, vals.crystal_names = catalogue_names(exe, sdir, tag)
    plan = []
    for fn in fns:
        for kinds, args in apisweep.sweep(h, desc, vals, fn, budget, quick):
            plan.append((fn, kinds, args))
    # diffraction functions have an argument-dependent threshold (the Bragg cut-off energy hc/2d of the chosen crystal and reflection) that no
    # fixed energy list can bracket: ask the library for d first, then add energies just below / at / just above the cut-off
    crys_fns = [fn for fn in fns if fn in ("Bragg_angle", "Q_scattering_amplitude", "Crystal_F_H_StructureFactor", "Crystal_F_H_StructureFactor_Partial")]
    if crys_fns:
        combos = []
        for fn, kinds, args in plan:
            if fn in crys_fns and isinstance(args[0], str) and args[0] != "cNULL" and tuple(args[2:5]) != (0, 0, 0) and (args[0], tuple(args[2:5])) not in combos:
                combos.append((args[0], tuple(args[2:5])))
        import random
        random.Random(mix(seed, "cutoff", tag)).shuffle(combos)
        combos = combos[:25 if quick else 200]
        pre, _, _ = calls.run(exe, "simple", [calls.line("Crystal_dSpacing", ["crystal", "i", "i", "i"], [c, hkl[0], hkl[1], hkl[2]]) for c, hkl in combos], sdir, tag + "_d")
        k2a = h.val.get("KEV2ANGST", 12.39841930)
        for (c, hkl), o in zip(combos, pre):
            pd = calls.parse(o)
            if pd.get("err") is not None or not (pd.get("result") or "").startswith("d:"):
                continue
            d = calls.value(pd["result"]) if hasattr(calls, "value") else None
            if not d or not (d > 0):
                continue
            ec = k2a / (2.0 * d)
            for fn in crys_fns:
                tmpl = next((a for f, k, a in plan if f == fn and a[0] == c), None) or next(a for f, k, a in plan if f == fn)
                kinds = next(k for f, k, a in plan if f == fn)
                for fac in (1 - 1e-2, 1 - 1e-6, 1 - 1e-9, 1.0, 1 + 1e-9, 1 + 1e-6, 1 + 1e-2):
                    a = list(tmpl)
                    a[0], a[1], a[2], a[3], a[4] = c, ec * fac, hkl[0], hkl[1], hkl[2]
                    plan.append((fn, kinds, a))
                    st.cls("bragg_cutoff_bracket")
    if tag.endswith("_1"):
        # a collection of the caller's own: crystals from a generated file plus one added with its volume member at 0 (the collection computes it);
        # whatever is looked up afterwards is a complete crystal: positive volume, positive d-spacing
        import c17, random
        prng = random.Random(mix(seed, "c03-private", tag))
        for _ in range(12 if quick else 60):
            l = c17.private_array_line(prng)
            parts = l.split("\t")
            insane = None
            if prng.random() < 0.5:
                parts[3] = calls.hx("AA_private_entry")
            if prng.random() < 0.25:
                insane = "insane-cell"
                # a cell no crystal has (an edge <= 0, an angle outside ]0,180[): whatever the reader makes of it, it reports at most one error
                s = bytes.fromhex(parts[2][2:]).decode("latin-1")
                k = s.find("#UCELL ")
                if k >= 0:
                    e = s.find("\n", k)
                    f = s[k + 7:e].split()
                    i = prng.randrange(6)
                    f[i] = prng.choice(["-1.5", "0"]) if i < 3 else prng.choice(["190.27", "0", "-90", "180"])
                    s = s[:k + 7] + " ".join(f) + s[e:]
                    parts[2] = calls.hx(s)
            l = "\t".join(parts)
            plan.append(("@private_array", insane, l))
        desc["@private_array"] = dict(ret="x", args=["int", "const char*", "const char*"], argnames=["cap", "text", "query"])
    if "@error_api" in fns or tag.endswith("_0"):
        plan.append(("@error_api", ["i"], [2]))
        desc["@error_api"] = dict(ret="x", args=["int"], argnames=["code"])
    lines = [args if fn == "@private_array" else calls.line(fn, kinds, args) for fn, kinds, args in plan]
    out, rc, err = calls.run(exe, mode, lines, sdir, tag)
    crashed_at = None
    if rc != 0 or len(out) != len(lines):
        # locate the call that killed the interpreter: re-run the remainder flushing every line
        start = max(0, len(out) - 1)
        out2, rc2, err2 = calls.run(exe, "flush", lines[start:], sdir, tag + "_flush")
        done = [l for l in out2 if not l.startswith("B")]
        crashed_at = start + len(done)
        fn, kinds, args = plan[min(crashed_at, len(plan) - 1)]
        head = [l for l in (err2 or err).split("\n") if "runtime error:" in l or "ERROR: AddressSanitizer" in l or "SUMMARY:" in l]
        frame = ""
        for l in (err2 or err).split("\n"):
            if "/src/" in l and " in " in l and "xrlcall" not in l.split(" in ", 1)[1].split(" ")[0]:
                frame = l.split(" in ", 1)[1].split(" ")[0]
                break
        st.violation("memory:%s:%s" % (fn, frame or "crash"), dict(config=config, fn=fn, args=[a if not isinstance(a, bytes) else a.decode("latin-1") for a in args], line=lines[crashed_at]),
                     "no sanitizer report / crash", "\n".join(head[:5]) + "\n" + (err2 or err)[:1200])
        st.note("interpreter_crashes", 1)
        out = out[:start] + done
    seen_outcomes = {}
    for (fn, kinds, args), o in zip(plan, out):
        st.ev()
        p = calls.parse(o)
        has_slot = fn.startswith("@") or "xrl_error**" in desc[fn]["args"]
        case = dict(config=config, fn=fn, args=[a if not isinstance(a, bytes) else a.decode("latin-1") for a in args] if fn != "@private_array" else [])
        if fn == "@error_api":
            if not (p["result"] or "").startswith("err:ok"):
                st.violation("error-api", case, "copy/propagate/clear/matches consistent", p["result"])
            continue
        if fn == "@private_array":
            r = p["result"] or ""
            st.cls("private_array_scenarios")
            if ";q=" in r and not r.endswith(";q=none"):
                q = r.split(";q=")[1].split(":")
                vol, d = float.fromhex(q[0]), float.fromhex(q[2])
                if not (vol > 0 and d > 0) and kinds != "insane-cell":
                    st.violation("nonpositive-without-error:@private_array", dict(config=config, scenario=r[:120]), "looked-up crystal with volume > 0 and d(1,1,1) > 0", dict(volume=vol, d=d))
            elif "pa:rv=" not in r:
                st.violation("private-array-scenario-broken", dict(config=config), "scenario result", r[:200])
            m = re.search(r"pa:rv=(-?\d+)", r)
            if m:
                # the slot of the scenario is the one handed to Crystal_ReadFile: failure value <=> error
                if (int(m.group(1)) == 1) != (p["err"] is None):
                    st.violation("error-iff-failure:@private_array", dict(config=config, scenario=r[:100], file=bytes.fromhex(args.split("\t")[2][2:]).decode("latin-1")[:600]),
                                 "Crystal_ReadFile returns 1 without an error or 0 with one", dict(rv=int(m.group(1)), error=p["err"]))
            if p.get("stderr") and b"set over the top" in p["stderr"]:
                st.violation("error-overwrite:@private_array", dict(config=config, scenario=r[:100]), "at most one error per call", p["stderr"][:200])
            continue
        for suffix, exp, got in apisweep.judge(fn, p, has_slot):
            st.violation("%s:%s" % (suffix, fn), case, exp, got)
        if p.get("heap"):
            st.violation("leak:%s:%s" % (fn, "error-path" if p["err"] else "success-path"), case, "no memory held after the call", "%d bytes (confirmed unreachable by LeakSanitizer)" % p["heap"])
        outcome = "value" if p["err"] is None else "error:" + p["err"][1].decode("latin-1")[:40]
        key = (fn, outcome)
        seen_outcomes[key] = seen_outcomes.get(key, 0) + 1
        st.nt_key(fn, tuple(type(a).__name__ if not isinstance(a, (int, str, type(None))) else a for a in args), outcome)
        st.sample(fn + ":" + outcome.split(":")[0], dict(case, result=(p["result"] or "")[:80]), cap=1)
    st.note("calls_by_function", {})
    for k in sorted(apisweep.GENERIC):
        st.note("generic_value_class:" + k, 1)          # parameters without a class of their own (API extension): swept with generic values
    for n, why in sorted(apigen.UNCLASSIFIED.items()):
        st.note("not_swept:%s" % n, why)                # prototypes the interpreter cannot encode: left out, stated here
    for (fn, outcome), n in seen_outcomes.items():
        st.cls("outcome:" + outcome.split(":")[0], n)
    for fn in fns:
        kinds_seen = {o.split(":")[0] for (f, o) in seen_outcomes if f == fn}
        if len(kinds_seen) == 1 and not fn.startswith("@") and "xrl_error**" in desc.get(fn, {}).get("args", []):
            st.cls("one_sided_functions")
            st.note("one_sided:%s:%s" % (config, fn), sorted(kinds_seen)[0])
    return st


def functions(src):
    h, desc = apigen.descriptors(src)
    return sorted(desc) + ["add_compound_data", "Crystal_ArrayInit"]


def run_sweep(ctx, mode):
    import concurrent.futures as cf
    quick = ctx.quick
    budget = 2500 if quick else 60000
    with cf.ThreadPoolExecutor(2) as ex:
        fa = ex.submit(ctx.build, "asan", "A")
        fb = ex.submit(ctx.build, "asan", "B")
        builds = {"A": fa.result(), "B": fb.result()}
    items = []
    for cfg in ("A", "B"):
        exe, h, desc = calls.build_harness(ctx.sdir, builds[cfg])
        fns = functions(builds[cfg]["src"])
        nparts = 16 if cfg == "B" else 8
        b2 = budget if cfg == "B" else max(300, budget // 4)
        for k in range(nparts):
            part = fns[k::nparts]
            items.append((exe, builds[cfg]["src"], cfg, part, ctx.seed, b2, quick, ctx.sdir, mode, "%s_%d" % (cfg, k)))
    ctx.stats.merge(common.pmap(work, items))
    return budget


def run(ctx):
    budget = run_sweep(ctx, "full")
    ctx.rule = ("every function declared in include/*.h (descriptor generated from the prototypes; unclassifiable parameter = generator failure) x "
                "discrete classes enumerated completely when the product <= %d else seeded sampling that still covers every value of every class "
                "(Z -3..125, shells -2..33, every line macro +-3, CK -1..16, Auger macros, Miller, flags, catalogue indices, INT_MIN/INT_MAX) x "
                "structured continuous values (E: <=0, 1e-300, table ends and every edge of the element +-1e-9, 1e300, seeded log-uniform; angles "
                "0, +-1e-8, pi/2, pi, 2pi, 1e6; q/pz; density; debye; rel_angle) x strings (formulas, NIST names, garbage, '', NULL) x crystals "
                "(built-ins, generated cell, NULL); configurations A and B; each call with a fresh slot, without slot and with a pre-set slot. "
                "non-trivial = distinct (function, argument tuple, outcome)" % budget)
    ctx.assumptions = ["NaN/Inf arguments are outside the property's domain ('finite arguments')",
                       "functions whose both outcomes were not observed are listed under samples 'one_sided'"]


def replay(ctx, rec):
    c = rec["case"]
    cfg = c.get("config", "A")
    b = ctx.build("asan", cfg)
    exe, h, desc = calls.build_harness(ctx.sdir, b)
    if "line" in c:
        line = c["line"]
    else:
        d = dict(apigen.descriptors(b["src"])[1])
        d["add_compound_data"] = dict(args=["const char*", "double", "const char*", "double"])
        d["Crystal_ArrayInit"] = dict(args=["int", "xrl_error**"])
        kinds = apigen.arg_kinds(d[c["fn"]]) if c["fn"] in d else ["i"]
        line = calls.line(c["fn"], kinds, c["args"])
    out, rc, err = calls.run(exe, "fullleak", [line], ctx.sdir, "replay")
    if rc != 0 or not out:
        print("replay: interpreter died:", err[-800:])
        return False
    p = calls.parse(out[0])
    has_slot = True
    bad = apisweep.judge(c["fn"], p, has_slot)
    if p.get("heap"):
        bad.append(("leak", 0, p["heap"]))
    print("replay:", out[0][:300], bad)
    want = rec["signature"].split(":")[0]
    return not [b_ for b_ in bad if b_[0] == want or want in ("memory",)]
