"""C02 - interpolated quantities follow the shipped spline and never extrapolate.
Every knot interval of every table (knot, midpoint, seeded fraction), both table ends straddled by 1e-12..1e-3, non-positive and
huge arguments; oracle = textbook natural-cubic-spline evaluation over independently parsed, 11-digit-rounded knots."""
import math, random
import common, xrl
from common import Stats, mix

TOL = 1e-12
DELTAS = (1e-12, 1e-9, 1e-6, 1e-3)
GUARD = 1e-7  # precision allowance of the build above the last knot, in the transformed coordinate


def r11(v):
    return [xrl.round11(x) for x in v]


class Table:
    """one interpolation table with its argument transform"""

    def __init__(self, xs, ys, y2, fwd, inv, yexp):
        self.xs, self.ys, self.y2 = r11(xs), r11(ys), r11(y2)
        # the knots as written in the data file: a build that keeps more digits than %.10E follows these; either spline is "the shipped spline"
        self.raw = None
        if list(xs) != self.xs or list(ys) != self.ys or list(y2) != self.y2:
            self.raw = Table.__new__(Table)
            self.raw.xs, self.raw.ys, self.raw.y2, self.raw.n, self.raw.raw = list(xs), list(ys), list(y2), len(xs), None
            self.raw.fwd, self.raw.inv, self.raw.yexp = fwd, inv, yexp
        self.n = len(xs)
        self.fwd, self.inv, self.yexp = fwd, inv, yexp
        self.nonmono = {k for k in range(self.n - 1) if self.xs[k + 1] < self.xs[k]}

    def locate(self, x):
        """textbook bisection (1-based klo/khi as in Numerical Recipes), returns 0-based klo"""
        klo, khi = 1, self.n
        xs = self.xs
        while khi - klo > 1:
            k = (khi + klo) >> 1
            if xs[k - 1] > x:
                khi = k
            else:
                klo = k
        return klo - 1

    def spline(self, x, k=None):
        if k is None:
            k = self.locate(x)
        xs, ys, y2 = self.xs, self.ys, self.y2
        h = xs[k + 1] - xs[k]
        if h == 0.0:
            y = (ys[k] + ys[k + 1]) / 2.0
        else:
            a = (xs[k + 1] - x) / h
            b = (x - xs[k]) / h
            y = a * ys[k] + b * ys[k + 1] + ((a * a * a - a) * y2[k] + (b * b * b - b) * y2[k + 1]) * (h * h) / 6.0
        return (math.exp(y) if self.yexp else y), k


def f_ln1000(E):
    return math.log(E * 1000.0)


def i_ln1000(x):
    return math.exp(x) / 1000.0


def f_ln(E):
    return math.log(E)


def i_ln(x):
    return math.exp(x)


def f_lnp1(p):
    return math.log(p + 1.0)


def i_lnp1(x):
    return math.exp(x) - 1.0


def f_id(v):
    return v


# function name -> (data file, loader kind, fwd, inv, yexp, non-positive argument policy)
SIMPLE = {
    "CS_Photo": ("CS_Photo.dat", f_ln1000, i_ln1000, True),
    "CS_Rayl": ("CS_Rayl.dat", f_ln1000, i_ln1000, True),
    "CS_Compt": ("CS_Compt.dat", f_ln1000, i_ln1000, True),
    "CS_Energy": ("CS_Energy.dat", f_ln, i_ln, True),
    "FF_Rayl": ("FF.dat", f_id, f_id, False),
    "SF_Compt": ("SF.dat", f_id, f_id, False),
    "Fi": ("fi.dat", f_id, f_id, False),
    "Fii": ("fii.dat", f_id, f_id, False),
}


def judge_point(st, fn, call, tab, arg, kind, case, quick_nt=True, ns=None):
    """evaluate one argument against the table oracle with the range rule"""
    st.ev()
    got, err = call(arg)
    if ns is not None:
        # the same call without an error slot: the value must not depend on how the caller asked for the error
        g2 = ns(arg)
        if g2 != got and not (g2 != g2 and got != got):
            st.violation("noslot-differs:" + fn, dict(case, arg=arg, kind=kind), got, g2)
            return
    x = None
    if arg > 0 or (arg == 0 and fn.startswith("ComptonProfile")) or (fn == "FF_Rayl" and arg >= 0):
        try:
            x = tab.fwd(arg)
        except (ValueError, OverflowError):
            x = None
    if fn == "FF_Rayl" and arg == 0:
        exp_ok, exp = True, float(case["Z"])
        if err is not None or got != exp:
            st.violation("special:FF_Rayl:q0", case, exp, dict(value=got, error=err))
        return
    if x is not None and tab.raw is not None and min(tab.xs[0], tab.raw.xs[0]) <= x < max(tab.xs[0], tab.raw.xs[0]):
        st.cls("low_end_precision_band")      # between the first knot as written and as printed by the build: either outcome
        if err is not None and got != 0.0:
            st.violation("error-value:" + fn, dict(case, arg=arg), 0.0, got)
        return
    if x is None or x < tab.xs[0]:
        st.cls("below_or_invalid")
        if err is None or got != 0.0:
            st.violation("extrapolation-low:" + fn, dict(case, arg=arg, kind=kind), "error", dict(value=got, error=err))
        return
    xn = tab.xs[-1]
    if x > xn + GUARD:
        st.cls("above")
        if err is None or got != 0.0:
            st.violation("extrapolation-high:" + fn, dict(case, arg=arg, kind=kind), "error", dict(value=got, error=err))
        return
    k = tab.locate(x)
    if k in tab.nonmono or (k - 1) in tab.nonmono or (k + 1) in tab.nonmono:
        # a shipped table with a decreasing abscissa step (CS_Photo, Z=96): the textbook bisection is still a deterministic function of the shipped
        # knots, so the value is compared like everywhere else; only the knot-value rule below does not apply
        st.cls("nonmonotone_neighbourhood")
    exp, k = tab.spline(x, k)
    if x > xn:
        st.cls("guard_band")
        if err is not None:
            if got != 0.0:
                st.violation("error-value:" + fn, dict(case, arg=arg), 0.0, got)
            return
    if err is not None:
        st.violation("spurious-error:" + fn, dict(case, arg=arg, kind=kind, x=x, interval=k), exp, dict(value=got, error=err))
        return
    st.cls("in_range:" + kind)
    nt = (tab.y2[k] != 0.0 or tab.y2[k + 1] != 0.0 or k == 0 or k == tab.n - 2)
    if nt:
        st.nt()
    if xrl.relerr(got, exp) > TOL and abs(got - exp) > 1e-300:
        alt = None
        if tab.raw is not None and tab.raw.xs[0] <= x <= tab.raw.xs[-1] + GUARD:
            alt = tab.raw.spline(x, min(tab.raw.locate(x), tab.raw.n - 2))[0]
        if alt is None or (xrl.relerr(got, alt) > TOL and abs(got - alt) > 1e-300):
            st.violation("value:" + fn, dict(case, arg=arg, kind=kind, x=x, interval=k), exp, got)
            return
        st.cls("matches_unrounded_knots")
    if kind == "knot" and not tab.yexp and arg == tab.xs[k] and k not in tab.nonmono:
        # linear-space tables: the knot abscissa is exactly representable as an argument
        cands = {tab.ys[j] for j in range(tab.n) if tab.xs[j] == arg}
        if not any(xrl.relerr(got, c) <= TOL or abs(got - c) < 1e-300 for c in cands):
            st.violation("knot-value:" + fn, dict(case, arg=arg), sorted(cands), got)
    st.sample("%s:%s" % (fn, kind), dict(case, arg=arg, expected=exp, got=got), cap=1)


def table_args(tab, rng, frac_intervals):
    """[(arg, kind)] for one table"""
    out = []
    n = tab.n
    for k in range(n - 1):
        if frac_intervals < 1.0 and rng.random() > frac_intervals and k not in (0, n - 2):
            continue
        a, b = tab.xs[k], tab.xs[k + 1]
        out.append((tab.inv(a), "knot"))
        out.append((tab.inv(a + 0.5 * (b - a)), "mid"))
        out.append((tab.inv(a + rng.random() * (b - a)), "frac"))
    out.append((tab.inv(tab.xs[-1]), "knot"))
    lo, hi = tab.inv(tab.xs[0]), tab.inv(tab.xs[-1])
    for d in DELTAS:
        for base, tag in ((lo, "lo"), (hi, "hi")):
            out.append((base * (1 - d), "end-" + tag))
            out.append((base * (1 + d), "end+" + tag))
            if base == 0.0:
                out.append((-d, "end-" + tag))
                out.append((d, "end+" + tag))
    out.append((lo, "end=lo"))
    out.append((hi, "end=hi"))
    for v in (0.0, -1.0, -1e-300, 2.2250738585072014e-308, 1e-300, 1e300, 1e6):
        out.append((v, "extreme"))
    return out


def work(item):
    config, lib_path, src, fn, zs, seed, frac = item
    st = Stats()
    h = xrl.Headers(src)
    df = xrl.DataFiles(src)
    L = xrl.Lib(lib_path, h)
    zmax = h.val["ZMAX"]
    if fn in SIMPLE:
        fname, fwd, inv, yexp = SIMPLE[fn]
        data = df.spline3(fname, has_nz=(fname == "CS_Energy.dat"))
        edges_all = df.named3("edges.dat", 1000.0)
        for z in zs:
            case = dict(config=config, fn=fn, Z=z)
            if z not in data or not (1 <= z <= zmax):
                for arg in (1.0, 10.0, 0.5):
                    st.ev()
                    got, err = L.call(fn, z, arg)
                    st.cls("no_table")
                    if err is None or got != 0.0:
                        st.violation("nodata:" + fn, dict(case, arg=arg), "error", dict(value=got, error=err))
                continue
            tab = Table(*data[z], fwd, inv, yexp)
            if tab.nonmono:
                st.note("nonmonotone_tables", 1)
            rng = random.Random(mix(seed, fn, z))
            args = table_args(tab, rng, frac)
            if fn in ("CS_Photo", "CS_Rayl", "CS_Compt", "CS_Energy", "Fi", "Fii"):
                # the absorption-edge energies of the element as a caller obtains them (EdgeEnergy: edges.dat / 1000, as written and as the build
                # prints it): arguments of their own - the edge knots of the tables are rounded differently, so these are neither knots nor ends
                for (zz, sh), e in edges_all.items():
                    if zz == z and e > 0:
                        for v in {e, xrl.round11(e)}:
                            args += [(v, "edge-energy"), (v * (1 - 1e-9), "edge-energy"), (v * (1 + 1e-9), "edge-energy")]
            for arg, kind in args:
                judge_point(st, fn, lambda a: L.call(fn, z, a), tab, arg, kind, case, ns=lambda a: L.noslot(fn, z, a))
    elif fn == "@interleave":
        # the same tables, visited in an order no per-table sweep produces: consecutive calls share the argument but not the function
        # or the element (or share the element but not the function), so that anything remembered from one call is wrong for the next
        tabs = {}
        for f, (fname, fwd, inv, yexp) in SIMPLE.items():
            data = df.spline3(fname, has_nz=(fname == "CS_Energy.dat"))
            for z in zs:
                if z in data and 1 <= z <= zmax:
                    tabs[(f, z)] = Table(*data[z], fwd, inv, yexp)
        cp = df.compton_profiles()
        for z in zs:
            if z in cp and 1 <= z <= zmax:
                tabs[("ComptonProfile", z)] = Table(cp[z]["pz"], cp[z]["total"], cp[z]["total2"], f_lnp1, i_lnp1, True)
        keys = sorted(tabs)
        rng = random.Random(mix(seed, "interleave", zs[0] if zs else 0))
        rounds = int(frac)
        for r in range(rounds if keys else 0):
            mode = r % 3
            if mode == 0:      # one argument, many (function, element) pairs
                arg = 10.0 ** rng.uniform(-1.0, 2.9) if rng.random() < 0.7 else rng.choice((0.1, 0.5, 0.999, 1.0, 1.001, 5.0, 99.0, 100.0, 101.0))
                seq = [(k, arg) for k in rng.sample(keys, min(len(keys), 8))]
            elif mode == 1:    # one element, all functions, arguments from a short list so that repeats occur
                z = rng.choice(zs)
                pool = [10.0 ** rng.uniform(-1.0, 2.9) for _ in range(3)]
                seq = [(k, rng.choice(pool)) for k in keys if k[1] == z]
                rng.shuffle(seq)
            else:              # one function, alternating elements at the same argument, then a second argument
                f = rng.choice(sorted(SIMPLE))
                zz = [k for k in keys if k[0] == f]
                a1, a2 = 10.0 ** rng.uniform(-1.0, 2.9), 10.0 ** rng.uniform(-1.0, 2.9)
                seq = [(k, a) for a in (a1, a2, a1) for k in rng.sample(zz, min(len(zz), 4))]
            for (f, z), arg in seq:
                judge_point(st, f, lambda a: L.call(f, z, a), tabs[(f, z)], arg, "interleaved", dict(config=config, fn=f, Z=z, order="interleaved", round=r, seq=[[k[0], k[1], a] for k, a in seq]),
                            ns=(lambda a: L.noslot(f, z, a)) if rng.random() < 0.3 else None)
    elif fn == "ComptonProfile":
        data = df.compton_profiles()
        nshell_macro = h.val.get("SHELLNUM_C", 29)
        for z in zs:
            case = dict(config=config, fn=fn, Z=z)
            if z not in data or not (1 <= z <= zmax):
                st.ev()
                got, err = L.call("ComptonProfile", z, 1.0)
                if err is None or got != 0.0:
                    st.violation("nodata:ComptonProfile", case, "error", dict(value=got, error=err))
                got, err = L.call("ComptonProfile_Partial", z, 0, 1.0)
                if err is None or got != 0.0:
                    st.violation("nodata:ComptonProfile_Partial", case, "error", dict(value=got, error=err))
                continue
            d = data[z]
            rng = random.Random(mix(seed, fn, z))
            tab = Table(d["pz"], d["total"], d["total2"], f_lnp1, i_lnp1, True)
            for arg, kind in table_args(tab, rng, frac):
                judge_point(st, "ComptonProfile", lambda a: L.call("ComptonProfile", z, a), tab, arg, kind, case, ns=lambda a: L.noslot("ComptonProfile", z, a))
            for s in range(-2, max(len(d["occ"]), nshell_macro) + 3):
                c2 = dict(config=config, fn="ComptonProfile_Partial", Z=z, shell=s)
                if 0 <= s < len(d["occ"]) and d["occ"][s] > 0.0:
                    tabp = Table(d["pz"], d["partial"][s], d["partial2"][s], f_lnp1, i_lnp1, True)
                    for arg, kind in table_args(tabp, rng, frac):
                        judge_point(st, "ComptonProfile_Partial", lambda a: L.call("ComptonProfile_Partial", z, s, a), tabp, arg, kind, c2, ns=lambda a: L.noslot("ComptonProfile_Partial", z, s, a))
                else:
                    st.ev()
                    st.cls("unoccupied_shell")
                    got, err = L.call("ComptonProfile_Partial", z, s, 1.0)
                    if err is None or got != 0.0:
                        st.violation("noshell:ComptonProfile_Partial", c2, "error", dict(value=got, error=err))
    elif fn == "CSb_Photo_Partial":
        kis = df.kissel(h.val.get("SHELLNUM_K", 31))
        edges = df.named3("edges.dat", 1000.0)
        shell_by_val = {v: n[:-6] for n, v in h.family("_SHELL", "xraylib-shells.h").items()}
        nk = h.val.get("SHELLNUM_K", 31)
        for z in zs:
            d = kis.get(z)
            for s in list(range(-2, nk + 3)):
                case = dict(config=config, fn=fn, Z=z, shell=s)
                occupied = d is not None and 0 <= s < nk and xrl.round11(d["config"][s]) >= 1.0e-6 and s in d["partial"]
                edge = None
                if occupied:
                    e = edges.get((z, shell_by_val.get(s)))
                    edge_raw = None
                    if e is not None and e > 0:
                        edge, edge_raw = xrl.round11(e), e
                    elif shell_by_val.get(s, "")[:1] == "Q":
                        edge, edge_raw = xrl.round11(d["partial"][s][0]), d["partial"][s][0]  # shells beyond edges.dat: Kissel binding energy
                if not occupied or edge is None or not (1 <= z <= zmax):
                    for arg in (1.0, 50.0, 150.0):
                        st.ev()
                        st.cls("no_table")
                        got, err = L.call(fn, z, s, arg)
                        if err is None or got != 0.0:
                            st.violation("noshell:" + fn, dict(case, arg=arg), "error", dict(value=got, error=err))
                    continue
                _, px, py, p2 = d["partial"][s]
                tab = Table(px, py, p2, f_ln, i_ln, True)
                rng = random.Random(mix(seed, fn, z, s))
                args = table_args(tab, rng, frac)
                # edge region: below the edge, at the edge, between edge and first knot
                first = i_ln(tab.xs[0])
                args += [(edge * (1 - 1e-9), "below-edge"), (edge, "at-edge"), (edge * (1 + 1e-9), "above-edge"), (edge * 0.5, "below-edge")]
                if first > edge:
                    for t in (0.01, 0.5, 0.99, rng.random()):
                        args.append((edge + t * (first - edge), "extension"))
                for arg, kind in args:
                    if edge_raw is not None and edge_raw != edge and min(edge, edge_raw) <= arg <= max(edge, edge_raw):
                        st.cls("edge_precision_band")      # between the edge as written and as printed by the build: either side
                        continue
                    if arg > 0 and arg < edge:
                        st.ev()
                        st.cls("below_edge")
                        got, err = L.call(fn, z, s, arg)
                        if err is None or got != 0.0:
                            st.violation("below-edge:" + fn, dict(case, arg=arg), "error", dict(value=got, error=err))
                        continue
                    if arg > 0 and math.log(arg) < tab.xs[0]:
                        # documented bounded-slope log-log extension between edge and first knot
                        st.ev()
                        st.nt()
                        st.cls("kissel_extension")
                        m = (tab.ys[1] - tab.ys[0]) / (tab.xs[1] - tab.xs[0])
                        m = max(-1.0, min(1.0, m))
                        exp = math.exp(tab.ys[0] + m * (math.log(arg) - tab.xs[0]))
                        got, err = L.call(fn, z, s, arg)
                        if err is not None or xrl.relerr(got, exp) > TOL:
                            st.violation("extension:" + fn, dict(case, arg=arg), exp, dict(value=got, error=err))
                        else:
                            st.sample("kissel_extension", dict(case, arg=arg, expected=exp, got=got), cap=1)
                        continue
                    judge_point(st, fn, lambda a: L.call(fn, z, s, a), tab, arg, kind, case, ns=lambda a: L.noslot(fn, z, s, a))
    return st


FUNCS = list(SIMPLE) + ["ComptonProfile", "CSb_Photo_Partial"]


def make_items(ctx, builds):
    frac = 1.0
    items = []
    zs_all = list(range(-1, 123))
    for cfg in ("A", "B"):
        for fn in FUNCS:
            if cfg == "B" and fn != "CSb_Photo_Partial":
                continue  # only the Kissel tables differ between the configurations
            step = 8
            for i in range(step):
                items.append((cfg, builds[cfg]["lib"], builds[cfg]["src"], fn, zs_all[i::step], ctx.seed, frac))
    zs = list(range(1, 108))
    random.Random(mix(ctx.seed, "interleave-z")).shuffle(zs)
    rounds = 1500 if ctx.tier == "quick" else 12000
    for i in range(0, len(zs), 9):
        items.append(("A", builds["A"]["lib"], builds["A"]["src"], "@interleave", sorted(zs[i:i + 9]), ctx.seed, rounds))
    return items


def run(ctx):
    import c01
    ctx.rule = ("every knot interval of every table of CS_Photo/Rayl/Compt/Energy, FF_Rayl, SF_Compt, Fi, Fii, ComptonProfile(+_Partial per "
                "occupied shell) and CSb_Photo_Partial (configuration B; in A every call must fail): left knot, midpoint, one seeded "
                "fraction; both ends x(1-+{1e-12,1e-9,1e-6,1e-3}); 0, negative, DBL_MIN, 1e300; Kissel edge/extension region; every call repeated without an error slot (same value required); interleaved sequences in which "
                "consecutive calls share the argument but not the function/element. "
                "non-trivial = in-range evaluation in an interval with non-zero second derivative or the first/last interval, plus "
                "every Kissel-extension point (distinct by construction: one per (function, Z, shell, interval, point kind))")
    ctx.exhaustive = False
    builds = c01.prepare(ctx)
    ctx.stats.merge(common.pmap(work, make_items(ctx, builds)))
    ctx.extra["intervals_fraction"] = 1.0
    ctx.assumptions = ["math.log/math.exp are the same glibc routines the library calls (same process image)",
                       "intervals adjacent to a non-monotone abscissa step (data anomaly, CS_Photo Z=96) are excluded from value comparison",
                       "the 1e-7 guard above the last knot is treated as the build's precision allowance: either outcome accepted inside it"]


def replay(ctx, rec):
    c = rec["case"]
    import c01
    builds = c01.prepare(ctx)
    cfg = c.get("config", "A")
    fn = c["fn"]
    base = "ComptonProfile" if fn.startswith("ComptonProfile") else fn
    if c.get("order") == "interleaved":
        # the recorded sequence, call by call, against the same table oracle
        st = Stats()
        h = xrl.Headers(builds[cfg]["src"]); df = xrl.DataFiles(builds[cfg]["src"]); L = xrl.Lib(builds[cfg]["lib"], h)
        cp = df.compton_profiles()
        for f, z, a in c["seq"]:
            if f == "ComptonProfile":
                tab = Table(cp[z]["pz"], cp[z]["total"], cp[z]["total2"], f_lnp1, i_lnp1, True)
            else:
                fname, fwd, inv, yexp = SIMPLE[f]
                tab = Table(*df.spline3(fname, has_nz=(fname == "CS_Energy.dat"))[z], fwd, inv, yexp)
            judge_point(st, f, lambda x: L.call(f, z, x), tab, a, "interleaved", dict(config=cfg, fn=f, Z=z), ns=lambda x: L.noslot(f, z, x))
        bad = [v for v in st.violations if v["sig"] == rec["signature"]]
        for v in bad[:3]:
            print("replay:", v)
        return not bad
    st = work((cfg, builds[cfg]["lib"], builds[cfg]["src"], base, [c["Z"]], rec.get("seed", ctx.seed), 1.0))
    bad = [v for v in st.violations if v["sig"] == rec["signature"]]
    for v in bad[:3]:
        print("replay:", v)
    return not bad
