// C04 (b): rapidcheck-generated call histories over the allocating API with an object pool.
// Objects are kept, copied, mutated and released in generated order, each exactly once; at the end everything is released and
// LeakSanitizer is asked whether anything became unreachable.  Built with ASan+UBSan: any memory error aborts the process, the
// step log (argv[1]) then holds the history that was running.
#include <rapidcheck.h>
#include <cstdio>
#include <cstring>
#include <string>
#include <vector>
#include <unistd.h>
extern "C" {
#include "xraylib.h"
}
extern "C" int __lsan_do_recoverable_leak_check();
extern "C" size_t __sanitizer_get_current_allocated_bytes();

static FILE *steplog = NULL;
static long n_cases = 0, n_nontrivial = 0, n_ops = 0;
static long cls_fail_after_ok = 0, cls_copy_outlives = 0, cls_grow = 0;

struct Op { int kind; int a; int b; double x; std::string s; };

namespace rc {
template <> struct Arbitrary<Op> {
  static Gen<Op> arbitrary() {
    static const std::vector<std::string> strs = {"H2O", "Ca5(PO4)3OH", "(H2O)", "Fe0.5Ni.25O1.25", "Mg(O(OH)2)3", "Hx", "(H2O", "H2O)", "", "Rf", "2H", "H0", "He2..3",
        "Water, Liquid", "Air, Dry (near sea level)", "Bone, Cortical (ICRP)", "water", "55Fe", "241Am", "109Cd", "Si", "Ge", "Muscovite", "AlphaQuartz", "si", "Unobtainium",
        "Uuo", "h2o", "H2O ", "C6H12O6", "Es2O3", "LaB6"};
    return gen::build<Op>(gen::set(&Op::kind, gen::resize(100, gen::inRange(0, 31))), gen::set(&Op::a, gen::resize(100, gen::inRange(-2, 200))), gen::set(&Op::b, gen::resize(100, gen::inRange(0, 64))),
                          gen::set(&Op::x, gen::map(gen::resize(100, gen::inRange(0, 100000)), [](int v) { return v / 1000.0; })),
                          gen::set(&Op::s, gen::oneOf(gen::elementOf(strs), gen::elementOf(strs), gen::container<std::string>(gen::elementOf(std::string("HCONaFeS()0123456789. x"))))));
  }
};
}  // namespace rc

struct Obj { int type; void *p; };   // 0 cd, 1 nist, 2 nuclide, 3 crystal, 4 string, 5 list, 6 error, 7 array
static void release(Obj o) {
  switch (o.type) {
    case 0: FreeCompoundData((struct compoundData *) o.p); break;
    case 1: FreeCompoundDataNIST((struct compoundDataNIST *) o.p); break;
    case 2: FreeRadioNuclideData((struct radioNuclideData *) o.p); break;
    case 3: Crystal_Free((Crystal_Struct *) o.p); break;
    case 4: xrlFree(o.p); break;
    case 5: { char **l = (char **) o.p; for (int i = 0; l[i]; i++) xrlFree(l[i]); xrlFree(l); break; }
    case 6: xrl_error_free((xrl_error *) o.p); break;
    case 7: Crystal_ArrayFree((Crystal_Array *) o.p); break;
  }
}

static std::string crystal_file(const Op &op, int corrupt) {
  std::string t = "#F generated\n";
  int n = 1 + op.b % 12;
  for (int i = 0; i < n; i++) {
    char buf[256];
    snprintf(buf, sizeof buf, "#S %d F%d_%d\n", 14, op.a, i);
    t += (corrupt == 1 && i == n - 1) ? std::string("#S 5\n") : std::string(buf);
    if (!(corrupt == 2 && i == n / 2)) t += "#UCELL 5.43 5.43 5.43 90 90 90\n";
    if (corrupt == 3 && i == n - 1) t += "#UCELL 1 2 3 90 90 90\n";
    t += "#L  AtomicNumber  Fraction  X  Y  Z\n";
    if (corrupt == 4 && i == n - 1) return t;
    t += "14 1.0 0.0 0.0 0.0\n";
    t += (corrupt == 5 && i == n - 1) ? "14 1.0 abc 0.25 0.25\n" : "14 1.0 0.25 0.25 0.25\n";
  }
  t += "#EOF\n";
  return t;
}

static bool run_history(const std::vector<Op> &ops, const char *tmpfile) {
  std::vector<Obj> pool;
  bool ok_seen = false, nontrivial = false;
  fprintf(steplog, "--- history %ld (%zu ops)\n", n_cases, ops.size());
  for (const Op &op : ops) {
    n_ops++;
    fprintf(steplog, "op kind=%d a=%d b=%d x=%g s=%s\n", op.kind, op.a, op.b, op.x, op.s.c_str());
    fflush(steplog);
    xrl_error *err = NULL;
    xrl_error **slot = (op.b % 3 == 0) ? NULL : &err;
    const char *s = (op.b % 17 == 16) ? NULL : op.s.c_str();
    void *p = NULL;
    int type = -1;
    switch (op.kind) {
      case 0: case 1: p = CompoundParser(s, slot); type = 0; break;
      case 2: p = GetCompoundDataNISTByName(s, slot); type = 1; break;
      case 3: p = GetCompoundDataNISTByIndex(op.a, slot); type = 1; break;
      case 4: p = GetRadioNuclideDataByName(s, slot); type = 2; break;
      case 5: p = GetRadioNuclideDataByIndex(op.a % 14, slot); type = 2; break;
      case 6: p = Crystal_GetCrystal(s, NULL, slot); type = 3; break;
      case 7: p = AtomicNumberToSymbol(op.a, slot); type = 4; break;
      case 8: { int n = 0; p = (op.b % 2) ? (void *) GetCompoundDataNISTList(&n, slot) : (void *) GetRadioNuclideDataList(NULL, slot); type = 5; break; }
      case 9: { int n = 0; p = Crystal_GetCrystalsList(NULL, (op.b % 2) ? &n : NULL, slot); type = 5; break; }
      case 10: {  // copy a pooled crystal; the copy must survive its original
        for (size_t i = 0; i < pool.size(); i++) if (pool[(i + op.a + 2) % pool.size()].type == 3) {
          p = Crystal_MakeCopy((Crystal_Struct *) pool[(i + op.a + 2) % pool.size()].p, slot); type = 3; cls_copy_outlives++; nontrivial = true; break; }
        if (type < 0) {  // nothing pooled yet: copy a fresh built-in crystal and release the original at once (the copy outlives it)
          Crystal_Struct *c = Crystal_GetCrystal((op.b % 2) ? "Muscovite" : "Si", NULL, NULL);
          if (c) { p = Crystal_MakeCopy(c, slot); type = 3; Crystal_Free(c); cls_copy_outlives++; nontrivial = true; }
        }
        break; }
      case 11: {  // scribble over a pooled crystal / compound (objects are independent deep copies)
        if (pool.empty()) break;
        Obj &o = pool[(op.a + 2) % pool.size()];
        if (o.type == 3) { Crystal_Struct *c = (Crystal_Struct *) o.p; for (int i = 0; i < c->n_atom; i++) { c->atom[i].Zatom = -4; c->atom[i].x = 9; } c->a = -1; if (c->name[0]) c->name[0] = '#'; }
        if (o.type == 0) { struct compoundData *c = (struct compoundData *) o.p; for (int i = 0; i < c->nElements; i++) { c->Elements[i] = -1; c->massFractions[i] = -1; } }
        if (o.type == 1) { struct compoundDataNIST *c = (struct compoundDataNIST *) o.p; for (int i = 0; i < c->nElements; i++) c->Elements[i] = -1; if (c->name[0]) c->name[0] = '#'; }
        break; }
      case 12: {  // add two pooled compositions
        struct compoundData *A = NULL, *B = NULL;
        for (auto &o : pool) if (o.type == 0) { if (!A) A = (struct compoundData *) o.p; else { B = (struct compoundData *) o.p; } }
        if (A && B && A->nElements > 0 && A->Elements[0] > 0 && B->Elements[0] > 0) { p = add_compound_data(*A, 0.3, *B, 0.7); type = 0; }
        break; }
      case 13: p = Crystal_ArrayInit(op.a % 14, slot); type = 7; break;
      case 14: case 15: {  // add a crystal (pooled copy or the built-in one) to a pooled array: crosses the capacity sooner or later
        Crystal_Array *arr = NULL; Crystal_Struct *cs = NULL;
        for (auto &o : pool) { if (o.type == 7 && !arr) arr = (Crystal_Array *) o.p; if (o.type == 3 && ((Crystal_Struct *) o.p)->n_atom >= 0 && ((Crystal_Struct *) o.p)->a > 0) cs = (Crystal_Struct *) o.p; }
        if (arr) {
          Crystal_Struct tmp; Crystal_Atom at = {14, 1.0, 0, 0, 0};
          char nm[40]; snprintf(nm, sizeof nm, "N%d_%d", op.a, op.b);
          if (!cs || op.kind == 15) { tmp.name = nm; tmp.a = tmp.b = tmp.c = 5; tmp.alpha = tmp.beta = tmp.gamma = 90; tmp.n_atom = 1; tmp.atom = &at; tmp.volume = 0; cs = &tmp; }
          int before = arr->n_crystal, cap = arr->n_alloc;
          int rv = Crystal_AddCrystal((op.b % 11 == 10) ? NULL : cs, arr, slot);
          if (rv && before == cap) { cls_grow++; nontrivial = true; }
        }
        break; }
      case 16: case 17: {  // read a generated crystal file (well formed or corrupted) into a pooled array
        Crystal_Array *arr = NULL;
        for (auto &o : pool) if (o.type == 7) arr = (Crystal_Array *) o.p;
        if (arr) {
          std::string t = crystal_file(op, op.kind == 17 ? 1 + op.b % 5 : 0);
          FILE *f = fopen(tmpfile, "w"); if (f) { fputs(t.c_str(), f); fclose(f); }
          int before = arr->n_crystal, cap = arr->n_alloc;
          int rv = Crystal_ReadFile((op.b % 13 == 12) ? "/nonexistent/x.dat" : tmpfile, arr, slot);
          if (rv && arr->n_crystal > cap && before <= cap) { cls_grow++; nontrivial = true; }
        }
        break; }
      case 18: {  // look up in a pooled user array
        for (auto &o : pool) if (o.type == 7) { char nm[40]; snprintf(nm, sizeof nm, "N%d_%d", op.a, op.b); p = Crystal_GetCrystal((op.b % 2) ? nm : s, (Crystal_Array *) o.p, slot); type = 3; break; }
        break; }
      case 19: {  // list of a pooled user array
        for (auto &o : pool) if (o.type == 7) { int n; p = Crystal_GetCrystalsList((Crystal_Array *) o.p, &n, slot); type = 5; break; }
        break; }
      case 20: CS_Total_CP(s, 1.0 + op.x, slot); break;
      case 21: { xrlComplex z = Refractive_Index(s, op.x, (op.b % 4) - 1.0, slot); (void) z; Refractive_Index_Re(s, op.x - 1.0, op.x, slot && !err ? slot : NULL); Refractive_Index_Im(s, 8.0, (op.b % 3) - 1.0, NULL); break; }
      case 22: DCSP_Compt_CP(s, op.x + 0.5, 1.0, 0.5, slot); break;
      case 23: {  // error objects: copy / propagate / clear
        xrl_error *e = NULL; AtomicWeight(-1, &e);
        xrl_error *c2 = xrl_error_copy(e);
        if (op.b % 2) { xrl_error *dest = NULL; xrl_propagate_error(&dest, c2); p = dest; type = 6; } else { xrl_clear_error(&c2); }
        xrl_error_free(e);
        break; }
      case 24: SymbolToAtomicNumber(s, slot); break;
      case 25: { Crystal_Struct *c = Crystal_GetCrystal("Si", NULL, NULL); if (c) { Bragg_angle(c, op.x + 0.1, op.a % 7, op.b % 5, 1, slot); xrl_error *e2 = NULL;
                 Crystal_F_H_StructureFactor(c, op.x + 0.1, op.a % 7 - 3, op.b % 5 - 2, op.a % 3, 1.0, 1.0, &e2); if (e2) xrl_error_free(e2); Crystal_Free(c); } break; }
      default: {  // 26..30: release a pooled object (generated order)
        if (!pool.empty()) { size_t k = (size_t) (op.a + 2) % pool.size(); release(pool[k]); pool.erase(pool.begin() + (long) k); }
        break; }
    }
    if (type >= 0 && p) { pool.push_back({type, p}); ok_seen = true; }
    if (type >= 0 && !p && ok_seen && op.kind < 10) { cls_fail_after_ok++; nontrivial = true; }
    if (err) {
      if (p && type != 6) { fprintf(steplog, "ERROR-AND-OBJECT\n"); return false; }
      xrl_error_free(err);
    }
  }
  for (auto &o : pool) release(o);
  pool.clear();
  if (nontrivial) n_nontrivial++;
  n_cases++;
  return true;
}

int main(int argc, char **argv) {
  if (argc < 4) { fprintf(stderr, "usage: c04_hist steplog tmpfile statsfile\n"); return 2; }
  steplog = fopen(argv[1], "w");
  const char *tmpfile = argv[2];
  bool leaked = false;
  bool ok = rc::check("allocating API histories: no memory error, everything released", [&](const std::vector<Op> &ops) {
    bool fine = run_history(ops, tmpfile);
    RC_ASSERT(fine);
    {
      volatile char scrub[65536];
      memset((void *) scrub, 0, sizeof scrub);
    }
    if (__lsan_do_recoverable_leak_check() != 0) { leaked = true; fprintf(steplog, "LEAK after history %ld\n", n_cases); fflush(steplog); RC_FAIL("leak"); }
  });
  FILE *st = fopen(argv[3], "w");
  fprintf(st, "{\"ok\": %s, \"leaked\": %s, \"cases\": %ld, \"nontrivial\": %ld, \"ops\": %ld, \"fail_after_ok\": %ld, \"copies\": %ld, \"grow\": %ld}\n", ok ? "true" : "false",
          leaked ? "true" : "false", n_cases, n_nontrivial, n_ops, cls_fail_after_ok, cls_copy_outlives, cls_grow);
  fclose(st);
  fclose(steplog);
  unlink(tmpfile);
  return ok ? 0 : 1;
}
