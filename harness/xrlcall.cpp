// Universal call interpreter for xraylib (C03, C04, C16, C17, C18 driver side).
// Reads one call per line:  NAME<TAB>arg<TAB>arg...   and writes one result line per call.
//   int: decimal   double: C hex float   string: s:<hex bytes> | NULL   crystal: c:<hex name> (built-in, fetched and freed here) |
//   cNULL | g:<a;b;c;al;be;ga|Z,f,x,y,z|...> (user supplied cell)   array: -   complex: re,im (hex floats)   out: -
// Result line:  R<TAB>result<TAB>E<TAB>code:msghex|-<TAB>N<TAB>0/1<TAB>P<TAB>0/1<TAB>S<TAB>stderrhex|-<TAB>H<TAB>heapdelta
//   N = the call without an error slot returned the bit-identical result; P = a pre-set error slot was left untouched and the result
//   was the same; S = what the library wrote to stderr during the slot / no-slot calls (overwrite diagnostics); H = bytes still
//   allocated after everything handed out was released.
#include <cstdio>
#include <cstdlib>
#include <cstring>
#include <cmath>
#include <string>
#include <vector>
#include <deque>
#include <stdexcept>
#include <new>
#include <unistd.h>
#include <fcntl.h>
#include <sys/mman.h>
#include <sys/wait.h>
#include <sys/stat.h>
#include <pthread.h>
#include <malloc.h>
#include <locale.h>
#include <fenv.h>
#include <errno.h>
extern "C" {
#include "xraylib.h"
}

#if defined(__has_feature)
#if __has_feature(address_sanitizer)
#define HAVE_ASAN 1
#endif
#endif
#if defined(__SANITIZE_ADDRESS__)
#define HAVE_ASAN 1
#endif
#ifdef HAVE_ASAN
extern "C" size_t __sanitizer_get_current_allocated_bytes();
extern "C" int __lsan_do_recoverable_leak_check();
static size_t heap_now() { return __sanitizer_get_current_allocated_bytes(); }
#else
static size_t heap_now() { struct mallinfo2 m = mallinfo2(); return m.uordblks + m.hblkhd; }
#endif

static int lsan_budget = 60;   // LeakSanitizer confirmations are expensive (stop-the-world): a run that leaks on every call must not take forever
static std::string hexenc(const char *p, size_t n) {
  static const char *d = "0123456789abcdef";
  std::string s;
  s.reserve(2 * n);
  for (size_t i = 0; i < n; i++) { s.push_back(d[(unsigned char) p[i] >> 4]); s.push_back(d[(unsigned char) p[i] & 15]); }
  return s;
}
static std::string hexenc(const char *p) { return p ? hexenc(p, strlen(p)) : std::string("NULL"); }
static std::string hexdec(const std::string &h) {
  std::string s;
  for (size_t i = 0; i + 1 < h.size(); i += 2) s.push_back((char) strtol(h.substr(i, 2).c_str(), NULL, 16));
  return s;
}
// the interpreter's own number I/O never depends on the process locale (the library is run under other locales on purpose): output is
// normalised to '.', input is read with an explicit "C" locale object - the process and thread locale are left alone
static std::string fd(double v) { char b[64]; snprintf(b, sizeof b, "%a", v); for (char *q = b; *q; q++) if (*q == ',') *q = '.'; return b; }
static double c_strtod(const char *s, char **end) {
  static locale_t cloc = newlocale(LC_ALL_MASK, "C", (locale_t) 0);
  return strtod_l(s, end, cloc);
}
static const char *harness_locale() { const char *l = getenv("XRLCALL_LOCALE"); return (l && *l) ? l : "C.utf8"; }

// threads mode: crystals built from a token are shared between the threads (one object per distinct token), as a program would share a crystal it
// built once - every thread only reads it.  "g:" = cell with its volume filled in, "h:" = the same left at volume 0 (a hand-made struct).
struct SharedCrystal { Crystal_Struct cs; std::vector<Crystal_Atom> atoms; std::string name; };
static bool g_share_user_crystals = false;
static pthread_mutex_t g_shared_mutex = PTHREAD_MUTEX_INITIALIZER;
static std::vector<std::pair<std::string, SharedCrystal *>> g_shared;

struct Ctx {
  std::vector<std::string> tok;
  size_t pos = 1;
  int mode = 0;               // 0 slot, 1 no slot, 2 pre-set slot
  xrl_error *slot = NULL;
  xrl_error *sentinel = NULL;
  std::string result;
  std::deque<std::string> keep;       // string argument storage (deque: element addresses stay valid)
  std::vector<Crystal_Struct *> builtin_crystals;
  std::vector<Crystal_Struct> user_crystals;
  std::vector<std::vector<Crystal_Atom>> user_atoms;
  std::vector<std::string> user_names;
  double od[8]; int oi[8]; xrlComplex oc[4];
  int nod = 0, noi = 0, noc = 0;

  const std::string &next() { static std::string empty; return pos < tok.size() ? tok[pos++] : empty; }
  void skip() { pos++; }
  int geti() { return (int) strtol(next().c_str(), NULL, 10); }
  double getd() { return c_strtod(next().c_str(), NULL); }
  const char *gets() {
    const std::string &t = next();
    if (t == "NULL") return NULL;
    keep.push_back(hexdec(t.substr(2)));
    return keep.back().c_str();
  }
  xrlComplex getc() {
    const std::string &t = next();
    xrlComplex z;
    char *e;
    z.re = c_strtod(t.c_str(), &e);
    z.im = c_strtod(e + 1, NULL);
    return z;
  }
  Crystal_Struct *getcrystal() {
    const std::string &t = next();
    if (t == "cNULL") return NULL;
    if (t[0] == 'c') {
      std::string nm = hexdec(t.substr(2));
      Crystal_Struct *cs = Crystal_GetCrystal(nm.c_str(), NULL, NULL);
      if (cs) builtin_crystals.push_back(cs);
      return cs;
    }
    // g:a;b;c;al;be;ga|Z,f,x,y,z|...     (h: = the same with volume left at 0)
    if (g_share_user_crystals) {
      pthread_mutex_lock(&g_shared_mutex);
      SharedCrystal *found = NULL;
      for (auto &e : g_shared) if (e.first == t) found = e.second;
      pthread_mutex_unlock(&g_shared_mutex);
      if (found) return &found->cs;
    }
    user_crystals.reserve(8); user_atoms.reserve(8); user_names.reserve(8);
    Crystal_Struct cs;
    std::vector<Crystal_Atom> atoms;
    const char *p = t.c_str() + 2;
    char *e;
    double cell[6];
    for (int i = 0; i < 6; i++) { cell[i] = c_strtod(p, &e); p = (*e) ? e + 1 : e; }      // a cell without atoms ends right after the sixth number
    while (*p) {
      Crystal_Atom a;
      a.Zatom = (int) strtol(p, &e, 10); p = e + 1;
      a.fraction = c_strtod(p, &e); p = e + 1;
      a.x = c_strtod(p, &e); p = e + 1;
      a.y = c_strtod(p, &e); p = e + 1;
      a.z = c_strtod(p, &e); p = e;
      if (*p == '|') p++;
      atoms.push_back(a);
    }
    user_atoms.push_back(atoms);
    user_names.push_back("generated");
    cs.name = (char *) user_names.back().c_str();
    cs.a = cell[0]; cs.b = cell[1]; cs.c = cell[2]; cs.alpha = cell[3]; cs.beta = cell[4]; cs.gamma = cell[5];
    cs.n_atom = (int) user_atoms.back().size();
    cs.atom = user_atoms.back().data();
    cs.volume = 0;
    if (t[0] != 'h') cs.volume = Crystal_UnitCellVolume(&cs, NULL);
    if (g_share_user_crystals) {
      SharedCrystal *sc = new SharedCrystal;
      sc->atoms = user_atoms.back(); sc->name = "generated"; sc->cs = cs;
      sc->cs.name = (char *) sc->name.c_str(); sc->cs.atom = sc->atoms.data();
      pthread_mutex_lock(&g_shared_mutex);
      SharedCrystal *found = NULL;
      for (auto &e : g_shared) if (e.first == t) found = e.second;
      if (!found) { g_shared.push_back(std::make_pair(t, sc)); found = sc; } else delete sc;
      pthread_mutex_unlock(&g_shared_mutex);
      return &found->cs;
    }
    user_crystals.push_back(cs);
    return &user_crystals.back();
  }
  // out parameters: token "-" = a slot of the harness (reported as ;od= / ;oi=), token "N" = NULL (the C functions accept NULL for double* / int* outs)
  double *outd() { if (next() == "N") return NULL; od[nod] = -777.25; return &od[nod++]; }
  int *outi() { if (next() == "N") return NULL; oi[noi] = -777; return &oi[noi++]; }
  xrlComplex *outc() { skip(); oc[noc].re = oc[noc].im = -777.25; return &oc[noc++]; }
  xrl_error **err() {
    if (mode == 1) return NULL;
    return &slot;
  }
  void outs() {
    for (int i = 0; i < nod; i++) result += ";od=" + fd(od[i]);
    for (int i = 0; i < noi; i++) result += ";oi=" + std::to_string(oi[i]);
    for (int i = 0; i < noc; i++) result += ";oc=" + fd(oc[i].re) + "," + fd(oc[i].im);
  }
  void ret_d(double v) { result = "d:" + fd(v); outs(); }
  void ret_i(int v) { result = "i:" + std::to_string(v); outs(); }
  void ret_c(xrlComplex z) { result = "z:" + fd(z.re) + "," + fd(z.im); outs(); }
  void ret_v() { result = "v"; outs(); }
  void ret_s(char *s) { if (!s) { result = "s:NULL"; return; } result = "s:" + hexenc(s); for (char *q = s; *q; q++) *q = '#'; xrlFree(s); }
  void ret_cd(struct compoundData *cd) {
    if (!cd) { result = "cd:NULL"; return; }
    result = "cd:" + std::to_string(cd->nElements) + ";" + fd(cd->nAtomsAll) + ";" + fd(cd->molarMass);
    for (int i = 0; i < cd->nElements; i++) result += ";" + std::to_string(cd->Elements[i]) + ":" + fd(cd->massFractions[i]) + ":" + fd(cd->nAtoms[i]);
    // the object belongs to the caller, who may do with it what he likes before releasing it: nothing of that may reach the library
    for (int i = 0; i < cd->nElements; i++) { cd->Elements[i] = 1 + i; cd->massFractions[i] = -3.5; cd->nAtoms[i] = 1e9; }
    FreeCompoundData(cd);
  }
  void ret_cn(struct compoundDataNIST *cd) {
    if (!cd) { result = "cn:NULL"; return; }
    result = "cn:" + hexenc(cd->name) + ";" + fd(cd->density);
    for (int i = 0; i < cd->nElements; i++) result += ";" + std::to_string(cd->Elements[i]) + ":" + fd(cd->massFractions[i]);
    for (int i = 0; i < cd->nElements; i++) { cd->Elements[i] = 1 + i; cd->massFractions[i] *= 100.0; }
    for (char *q = cd->name; q && *q; q++) *q = '#';
    FreeCompoundDataNIST(cd);
  }
  void ret_rn(struct radioNuclideData *r) {
    if (!r) { result = "rn:NULL"; return; }
    result = "rn:" + hexenc(r->name) + ";" + std::to_string(r->Z) + ";" + std::to_string(r->A) + ";" + std::to_string(r->N) + ";" + std::to_string(r->Z_xray);
    for (int i = 0; i < r->nXrays; i++) result += ";x" + std::to_string(r->XrayLines[i]) + ":" + fd(r->XrayIntensities[i]);
    for (int i = 0; i < r->nGammas; i++) result += ";g" + fd(r->GammaEnergies[i]) + ":" + fd(r->GammaIntensities[i]);
    for (int i = 0; i < r->nXrays; i++) { r->XrayLines[i] = -1; r->XrayIntensities[i] = 7.0; }
    for (int i = 0; i < r->nGammas; i++) { r->GammaEnergies[i] = -1.0; r->GammaIntensities[i] = 7.0; }
    for (char *q = r->name; q && *q; q++) *q = '#';
    FreeRadioNuclideData(r);
  }
  void ret_cs(Crystal_Struct *cs) {
    if (!cs) { result = "cs:NULL"; return; }
    result = "cs:" + hexenc(cs->name) + ";" + fd(cs->a) + ";" + fd(cs->b) + ";" + fd(cs->c) + ";" + fd(cs->alpha) + ";" + fd(cs->beta) + ";" + fd(cs->gamma) + ";" + fd(cs->volume);
    for (int i = 0; i < cs->n_atom; i++)
      result += ";" + std::to_string(cs->atom[i].Zatom) + ":" + fd(cs->atom[i].fraction) + ":" + fd(cs->atom[i].x) + ":" + fd(cs->atom[i].y) + ":" + fd(cs->atom[i].z);
    for (int i = 0; i < cs->n_atom; i++) { cs->atom[i].Zatom = 1; cs->atom[i].fraction = 0.25; cs->atom[i].x = cs->atom[i].y = cs->atom[i].z = 0.125; }
    for (char *q = cs->name; q && *q; q++) *q = '#';
    cs->a = cs->b = cs->c = 1.0; cs->volume = 1.0;
    Crystal_Free(cs);
  }
  void ret_list(char **l) {
    if (!l) { result = "l:NULL"; outs(); return; }
    int n = 0;
    result = "l:";
    for (; l[n]; n++) { result += (n ? "," : "") + hexenc(l[n]); for (char *q = l[n]; *q; q++) *q = '#'; xrlFree(l[n]); }
    xrlFree(l);
    result = "l:" + std::to_string(n) + ";" + result.substr(2);
    outs();
  }
  void exc() {   // called from a catch(...) block of a C++ wrapper call
    try { throw; }
    catch (std::invalid_argument &e) { result = std::string("X:invalid_argument:") + hexenc(e.what()); }
    catch (std::bad_alloc &e) { result = "X:bad_alloc:"; }
    catch (std::runtime_error &e) { result = std::string("X:runtime_error:") + hexenc(e.what()); }
    catch (std::exception &e) { result = std::string("X:other:") + hexenc(e.what()); }
    catch (...) { result = "X:unknown:"; }
  }
  void reset_args() {
    pos = 1; nod = noi = noc = 0; keep.clear();
    for (auto *cs : builtin_crystals) Crystal_Free(cs);
    builtin_crystals.clear(); user_crystals.clear(); user_atoms.clear(); user_names.clear();
    result.clear();
  }
};

#ifdef XRLCALL_CPP_WRAPPERS
#include "gen_dispatch_cpp.inc"
#else
#include "gen_dispatch.inc"
#endif

// ---------------------------------------------------------------------------------------- hand written entries
static void call_add_compound_data(Ctx &c) {
  const char *fa = c.gets(); double wa = c.getd(); const char *fb = c.gets(); double wb = c.getd();
  struct compoundData *A = fa ? CompoundParser(fa, NULL) : NULL, *B = fb ? CompoundParser(fb, NULL) : NULL;
  if (!A || !B) { if (A) FreeCompoundData(A); if (B) FreeCompoundData(B); c.result = "cd:unparsable"; return; }
  c.ret_cd(add_compound_data(*A, wa, *B, wb));
  FreeCompoundData(A); FreeCompoundData(B);
}
static void call_Crystal_ArrayInit(Ctx &c) {
  int n = c.geti();
  Crystal_Array *a = Crystal_ArrayInit(n, c.err());
  c.result = a ? "arr:ok" : "arr:NULL";
  if (a) Crystal_ArrayFree(a);
}
#ifdef XRLCALL_WRAP_CLOSE
// linked with -Wl,--wrap=close: a close() of a descriptor that is not open (a second close of the library's own file, in a threaded program the
// close of somebody else's file) is reported like a sanitizer finding and ends the run
extern "C" int __real_close(int fd);
extern "C" void __sanitizer_print_stack_trace(void) __attribute__((weak));
extern "C" int __wrap_close(int fd) {
  int rv = __real_close(fd);
  if (rv != 0 && errno == EBADF) {
    const char *lp = getenv("XRLCALL_ORACLE_LOG");      // fd 2 may be redirected while a call runs
    FILE *f = lp ? fopen(lp, "a") : NULL;
    for (FILE *o : {f, stderr}) {
      if (!o) continue;
      fprintf(o, "ORACLE-FAILURE runtime error: close() of descriptor %d which is not open (EBADF): closed twice, or never opened\n", fd);
      fprintf(o, "SUMMARY: descriptor closed that is not open\n");
      fflush(o);
    }
    if (__sanitizer_print_stack_trace) __sanitizer_print_stack_trace();
    _exit(86);
  }
  return rv;
}
#endif

static void call_error_api(Ctx &c) {
  // scenario: obtain an error from a failing call, copy it, propagate, match, clear - everything must stay consistent
  int code = c.geti();
  xrl_error *e = NULL, *e2 = NULL, *dest = NULL;
  AtomicWeight(-1, &e);
  if (!e) { c.result = "err:none"; return; }
  e2 = xrl_error_copy(e);
  bool ok = e2 && e2 != e && e2->code == e->code && strcmp(e2->message, e->message) == 0 && e2->message != e->message;
  ok = ok && xrl_error_matches(e, XRL_ERROR_INVALID_ARGUMENT) && !xrl_error_matches(e, (xrl_error_code) code == XRL_ERROR_INVALID_ARGUMENT ? XRL_ERROR_IO : (xrl_error_code) code);
  ok = ok && !xrl_error_matches(NULL, XRL_ERROR_INVALID_ARGUMENT) && xrl_error_copy(NULL) == NULL;
  xrl_propagate_error(&dest, e2);            // dest takes ownership of e2
  ok = ok && dest == e2;
  xrl_propagate_error(NULL, xrl_error_copy(e)); // NULL destination: the source is released
  xrl_clear_error(&dest);
  ok = ok && dest == NULL;
  xrl_clear_error(&dest);                    // clearing an empty slot is a no-op
  xrl_clear_error(NULL);
  xrl_error_free(NULL);
  c.result = std::string("err:") + (ok ? "ok:" : "bad:") + std::to_string(e->code) + ":" + hexenc(e->message);
  xrl_error_free(e);
}

static void call_private_array(Ctx &c) {
  // a collection owned by the calling thread alone: init, load a generated definition file, add one crystal, list, look up, free.
  // Nothing here is shared with other threads, so the documentation promises the same outcome as in a serial run.
  int cap = c.geti();
  const char *text = c.gets();
  const char *query = c.gets();
  Crystal_Array *a = Crystal_ArrayInit(cap, NULL);
  if (!a) { c.result = "pa:noinit"; return; }
  char path[256];
  snprintf(path, sizeof path, "%s/xrlv.pa.%d.%lx.dat", getenv("VERIF_TMP") ? getenv("VERIF_TMP") : "/var/tmp", (int) getpid(), (unsigned long) pthread_self());
  FILE *f = fopen(path, "w");
  if (!f) { Crystal_ArrayFree(a); c.result = "pa:nofile"; return; }
  fputs(text ? text : "", f);
  fclose(f);
  int rv = Crystal_ReadFile(path, a, c.err());
  unlink(path);
  Crystal_Atom at[2] = {{14, 1.0, 0.0, 0.0, 0.0}, {8, 0.5, 0.25, 0.25, 0.25}};
  Crystal_Struct own;
  char own_name[] = "AA_private_entry";   /* sorts before the generated names: the entry added last is not the last entry */
  own.name = own_name; own.a = 4.0; own.b = 5.0; own.c = 6.0; own.alpha = 90; own.beta = 100; own.gamma = 90; own.volume = 0; own.n_atom = 2; own.atom = at;
  int rv2 = Crystal_AddCrystal(&own, a, NULL);
  int n = -1;
  char **names = Crystal_GetCrystalsList(a, &n, NULL);
  std::string s = "pa:rv=" + std::to_string(rv) + ";add=" + std::to_string(rv2) + ";n=" + std::to_string(n) + ";";
  if (names) { for (int i = 0; names[i]; i++) { s += hexenc(names[i]) + ","; xrlFree(names[i]); } xrlFree(names); }
  Crystal_Struct *q = query ? Crystal_GetCrystal(query, a, NULL) : NULL;
  if (q) {
    s += ";q=" + fd(q->volume) + ":" + std::to_string(q->n_atom) + ":" + fd(Crystal_dSpacing(q, 1, 1, 1, NULL));
    for (int i = 0; i < q->n_atom; i++) s += ":" + std::to_string(q->atom[i].Zatom) + "/" + fd(q->atom[i].fraction) + "/" + fd(q->atom[i].x);
    Crystal_Free(q);
  } else s += ";q=none";
  Crystal_ArrayFree(a);
  c.result = s;
}

static void call_refused_builtin_load(Ctx &c) {
  // a well-formed file with more crystals than the built-in collection can take, read into the built-in collection: parsed completely, then refused,
  // nothing added.  (In threads mode only one thread issues these lines: it is the only one that touches the shared collection at all.)
  int n = c.geti();
  char path[256];
  snprintf(path, sizeof path, "%s/xrlv.rb.%d.%lx.dat", getenv("VERIF_TMP") ? getenv("VERIF_TMP") : "/var/tmp", (int) getpid(), (unsigned long) pthread_self());
  FILE *f = fopen(path, "w");
  if (!f) { c.result = "rb:nofile"; return; }
  for (int k = 0; k < n; k++) fprintf(f, "#S 14 zzoc_%04d\n#UCELL 5 5 5 90 90 90\n#N 5\n#L Z F X Y Z\n14 1.0 0 0 0\n", k);
  fputs("#EOF\n", f);
  fclose(f);
  int n0 = -1, n1 = -1;
  char **l = Crystal_GetCrystalsList(NULL, &n0, NULL);
  if (l) { for (int i = 0; l[i]; i++) xrlFree(l[i]); xrlFree(l); }
  int rv = Crystal_ReadFile(path, NULL, c.err());
  unlink(path);
  l = Crystal_GetCrystalsList(NULL, &n1, NULL);
  if (l) { for (int i = 0; l[i]; i++) xrlFree(l[i]); xrlFree(l); }
  c.result = "rb:rv=" + std::to_string(rv) + ";n=" + std::to_string(n0) + "->" + std::to_string(n1);
}

#ifndef XRLCALL_CPP_WRAPPERS
static void call_addcrystal(Ctx &c) {
  // insertion into the built-in collection (mutates global state: the caller runs this in a process of its own)
  // mode 0: a copy of an existing entry under its own name (duplicate); mode 1: fill to capacity, then one more
  int mode = c.geti();
  Crystal_Struct *si = Crystal_GetCrystal("Si", NULL, NULL);
  if (!si) { c.result = "add:nosi"; return; }
  if (mode == 3 || mode == 4) {
    // fill the built-in collection to capacity-1, then read a 3-crystal file into it (mode 3: must be refused cleanly), or fill it completely and
    // add one more without an error slot (mode 4: must be refused as well)
    for (int k = 0; k < 10 * CRYSTALARRAY_MAX; k++) {
      int n = 0; char **l = Crystal_GetCrystalsList(NULL, &n, NULL);
      if (l) { for (int i = 0; l[i]; i++) xrlFree(l[i]); xrlFree(l); }
      if (n >= CRYSTALARRAY_MAX - (mode == 3 ? 1 : 0)) break;
      char nm[32]; snprintf(nm, sizeof nm, "zz_fill_%04d", k);
      char *old = si->name; si->name = nm;
      int rv = Crystal_AddCrystal(si, NULL, NULL);
      si->name = old;
      if (rv != 1) { c.result = "add:fill-failed"; Crystal_Free(si); return; }
    }
    if (mode == 3) {
      char path[256];
      snprintf(path, sizeof path, "%s/xrlv.add3.%d.dat", getenv("VERIF_TMP") ? getenv("VERIF_TMP") : "/var/tmp", (int) getpid());
      FILE *f = fopen(path, "w");
      if (!f) { c.result = "add:nofile"; Crystal_Free(si); return; }
      for (int k = 0; k < 3; k++) fprintf(f, "#S 14 FromFile%d\n#UCELL 5 5 5 90 90 90\n#N 5\n#L Z F X Y Z\n14 1.0 0 0 0\n", k);
      fputs("#EOF\n", f);
      fclose(f);
      c.ret_i(Crystal_ReadFile(path, NULL, c.err()));
      unlink(path);
    } else {
      char extra[] = "one_too_many"; char *old = si->name; si->name = extra;
      int rv = Crystal_AddCrystal(si, NULL, NULL);      // no error slot
      // the refusal repeated: it must not cost memory (half with an error slot, half without)
      size_t h0 = heap_now();
      for (int k = 0; k < 40; k++) { xrl_error *e = NULL; Crystal_AddCrystal(si, NULL, (k & 1) ? &e : NULL); if (e) xrl_error_free(e); }
      long grown = (long) heap_now() - (long) h0;
#ifdef HAVE_ASAN
      if (grown > 0) { volatile char scrub[65536]; memset((void *) scrub, 0, sizeof scrub); if (__lsan_do_recoverable_leak_check() == 0) grown = 0; }
#endif
      si->name = old;
      int n = 0; char **l = Crystal_GetCrystalsList(NULL, &n, NULL);
      if (l) { for (int i = 0; l[i]; i++) xrlFree(l[i]); xrlFree(l); }
      c.result = "add4:rv=" + std::to_string(rv) + ";n=" + std::to_string(n) + ";cap=" + std::to_string(CRYSTALARRAY_MAX) + ";grown=" + std::to_string(grown);
    }
    Crystal_Free(si);
    return;
  }
  if (mode == 1) {
    for (int k = 0; k < 10 * CRYSTALARRAY_MAX; k++) {
      int n = 0; char **l = Crystal_GetCrystalsList(NULL, &n, NULL);
      if (l) { for (int i = 0; l[i]; i++) xrlFree(l[i]); xrlFree(l); }
      if (n >= CRYSTALARRAY_MAX) break;
      char nm[32]; snprintf(nm, sizeof nm, "zz_fill_%04d", k);
      char *old = si->name; si->name = nm;
      int rv = Crystal_AddCrystal(si, NULL, NULL);
      si->name = old;
      if (rv != 1) { c.result = "add:fill-failed"; Crystal_Free(si); return; }
    }
    char extra[] = "one_too_many"; char *old = si->name; si->name = extra;
    c.ret_i(Crystal_AddCrystal(si, NULL, c.err()));
    si->name = old;
  } else {
    c.ret_i(Crystal_AddCrystal(si, NULL, c.err()));
  }
  Crystal_Free(si);
}
#endif

typedef void (*callfn)(Ctx &);
static callfn lookup(const std::string &name) {
  for (auto &e : GEN_TABLE) if (name == e.name) return e.fn;
  if (name == "add_compound_data") return call_add_compound_data;
  if (name == "Crystal_ArrayInit") return call_Crystal_ArrayInit;
  if (name == "@error_api") return call_error_api;
  if (name == "@private_array") return call_private_array;
  if (name == "@refused_builtin_load") return call_refused_builtin_load;
  if (name == "@addcrystal") return call_addcrystal;
  return NULL;
}

// ---------------------------------------------------------------------------------------- stderr capture
static int saved_stderr = -1, cap_fd = -1;
static void capture_begin() {
  if (cap_fd < 0) { cap_fd = memfd_create("xrlcall-stderr", 0); saved_stderr = dup(2); }
  fflush(stderr);
  if (ftruncate(cap_fd, 0) != 0) {}
  lseek(cap_fd, 0, SEEK_SET);
  dup2(cap_fd, 2);
}
static std::string capture_end() {
  fflush(stderr);
  dup2(saved_stderr, 2);
  off_t n = lseek(cap_fd, 0, SEEK_END);
  if (n <= 0) return "";
  std::string s((size_t) n, 0);
  if (pread(cap_fd, &s[0], (size_t) n, 0) < 0) return "";
  return s;
}

static std::vector<std::string> split(const std::string &l) {
  std::vector<std::string> t;
  size_t a = 0;
  while (true) { size_t b = l.find('\t', a); t.push_back(l.substr(a, b == std::string::npos ? b : b - a)); if (b == std::string::npos) break; a = b + 1; }
  return t;
}

static std::string errdesc(xrl_error *e) {
  if (!e) return "-";
  return std::to_string((int) e->code) + ":" + hexenc(e->message ? e->message : "");
}

// full protocol: slot / no-slot / pre-set slot
struct FullOut { std::string r1, e1, serr; bool same = false, pok = false; };
static void run_modes(Ctx &c, callfn f, FullOut *o) {
  std::string r1, r2, r3, e1, serr;
  {
    capture_begin();
    c.mode = 0; c.slot = NULL;
    f(c);
    r1 = c.result; e1 = errdesc(c.slot);
    if (c.slot) xrl_error_free(c.slot);
    c.slot = NULL;
    c.reset_args();
    c.mode = 1;
    f(c);
    r2 = c.result;
    c.reset_args();
    serr = capture_end();
  }
  bool pok = true;
  {
    capture_begin();     // the overwrite diagnostic is expected here and discarded
    xrl_error *sent = NULL;
    ElementDensity(-5, &sent);   // a genuine library error object as sentinel
    std::string before = errdesc(sent);
    c.mode = 2; c.slot = sent;
    f(c);
    r3 = c.result;
    pok = (c.slot == sent) && errdesc(c.slot) == before && r3 == r1;
    if (c.slot) xrl_error_free(c.slot);
    c.slot = NULL;
    c.reset_args();
    capture_end();
  }
  if (o) { o->r1 = r1; o->e1 = e1; o->serr = serr; o->same = (r1 == r2); o->pok = pok; }
}

static std::string run_full(const std::string &line, bool leakcheck) {
  Ctx c;
  c.tok = split(line);
  callfn f = lookup(c.tok[0]);
  if (!f) return "X\tunknown-function";
  FullOut o;
  run_modes(c, f, &o);
  long hd = 0;
  if (leakcheck) {
    // second, identical round: the harness' own memory is in the same state before and after, so the balance is the library's
    size_t h1 = heap_now();
    run_modes(c, f, NULL);
    hd = (long) heap_now() - (long) h1;
#ifdef HAVE_ASAN
    if (hd != 0 && lsan_budget <= 0) hd = 0;
    if (hd != 0) {
      // suspicion only: repeat, scrub the stack, then ask LeakSanitizer whether anything became unreachable
      for (int k = 0; k < 10; k++) run_modes(c, f, NULL);
      { volatile char scrub[65536]; memset((void *) scrub, 0, sizeof scrub); }
      if (lsan_budget-- > 0) { if (__lsan_do_recoverable_leak_check() == 0) hd = 0; } else hd = 0;
    }
#endif
  }
  return "R\t" + o.r1 + "\tE\t" + o.e1 + "\tN\t" + (o.same ? "1" : "0") + "\tP\t" + (o.pok ? "1" : "0") + "\tS\t" +
         (o.serr.empty() ? "-" : hexenc(o.serr.c_str(), o.serr.size())) + "\tH\t" + std::to_string(hd);
}

// slot mode only (histories, threads, differential runs)
static std::string run_simple(const std::string &line, bool noslot = false) {
  Ctx c;
  c.tok = split(line);
  callfn f = lookup(c.tok[0]);
  if (!f) return "X\tunknown-function";
  c.mode = noslot ? 1 : 0; c.slot = NULL;
  f(c);
  std::string r = "R\t" + c.result + "\tE\t" + errdesc(c.slot);
  if (c.slot) xrl_error_free(c.slot);
  c.reset_args();
  return r;
}

// slot mode, error objects are kept alive until the end of the history (later calls must not affect them)
static std::vector<std::pair<xrl_error *, std::string>> kept_errors;
static std::string run_keep(const std::string &line) {
  Ctx c;
  c.tok = split(line);
  callfn f = lookup(c.tok[0]);
  if (!f) return "X\tunknown-function";
  c.mode = 0; c.slot = NULL;
  f(c);
  std::string r = "R\t" + c.result + "\tE\t" + errdesc(c.slot);
  if (c.slot) kept_errors.push_back({c.slot, errdesc(c.slot)});
  c.reset_args();
  // every third call once more, this time with a slot that still holds the error object of an earlier call (the caller did not clear it): the
  // library may warn, but the object in the slot stays the one it was - checked at the end of the history together with all kept errors.
  // (stderr is diverted for the duration: the warning is documented behaviour, not a trace)
  static unsigned long nth = 0;
  if (!kept_errors.empty() && (++nth % 3) == 0) {
    Ctx d;
    d.tok = split(line);
    xrl_error *old = kept_errors.back().first;
    d.mode = 2; d.slot = old;
    fflush(stderr);
    int save = dup(2), nul = open("/dev/null", O_WRONLY);
    if (save >= 0 && nul >= 0) dup2(nul, 2);
    f(d);
    fflush(stderr);
    if (save >= 0) { dup2(save, 2); close(save); }
    if (nul >= 0) close(nul);
    if (d.slot != old) {            // replaced: the old object is gone (released by the library), the new one is ours now
      if (d.slot) kept_errors.back().first = d.slot; else kept_errors.pop_back();
      kept_errors.push_back({NULL, "slot-object-replaced"});
    }
    d.slot = NULL;
    d.reset_args();
  }
  return r;
}

struct Range { unsigned long addr, size; int table; };
__attribute__((no_sanitize("address"))) static unsigned long long fnv_ranges(const std::vector<Range> &rs, int only_tables = 0) {
  unsigned long long h = 1469598103934665603ULL;
  for (auto &r : rs) { if (only_tables && !r.table) continue; const unsigned char *p = (const unsigned char *) r.addr; for (unsigned long i = 0; i < r.size; i++) { h ^= p[i]; h *= 1099511628211ULL; } }
  return h;
}

static int count_open_fds() {
  int n = 0;
  for (int fd = 0; fd < 1024; fd++) if (fcntl(fd, F_GETFD) != -1) n++;
  return n;
}

// the executable's own static TLS block of the calling thread: everything thread-local that was linked in statically (libxrl.a and this file).
// x86-64 (TLS variant II): the block of the main executable ends at the thread pointer and starts memsz (rounded up to its alignment) below it.
#include <link.h>
static int tls_phdr_cb(struct dl_phdr_info *info, size_t, void *data) {
  unsigned long *out = (unsigned long *) data;
  if (out[2]) return 0;             // first object = the main executable
  out[2] = 1;
  for (int i = 0; i < info->dlpi_phnum; i++)
    if (info->dlpi_phdr[i].p_type == PT_TLS) { out[0] = info->dlpi_phdr[i].p_memsz; out[1] = info->dlpi_phdr[i].p_align ? info->dlpi_phdr[i].p_align : 1; }
  return 0;
}
__attribute__((no_sanitize("address"))) static unsigned long long fnv_tls() {
#if defined(__x86_64__)
  unsigned long v[3] = {0, 1, 0};
  dl_iterate_phdr(tls_phdr_cb, v);
  if (!v[0]) return 0;
  unsigned long size = (v[0] + v[1] - 1) / v[1] * v[1];
  unsigned long tp = (unsigned long) __builtin_thread_pointer();
  const unsigned char *p = (const unsigned char *) (tp - size);
  unsigned long long h = 1469598103934665603ULL;
  for (unsigned long i = 0; i < size; i++) { h ^= p[i]; h *= 1099511628211ULL; }
  return h;
#else
  return 0;
#endif
}

static std::vector<std::string> read_lines(const char *path) {
  std::vector<std::string> v;
  FILE *f = fopen(path, "r");
  if (!f) { perror(path); exit(3); }
  char *line = NULL; size_t cap = 0; ssize_t n;
  while ((n = getline(&line, &cap, f)) > 0) { if (line[n - 1] == '\n') line[n - 1] = 0; v.push_back(line); }
  free(line); fclose(f);
  return v;
}

#include <atomic>
static std::atomic<int> live_workers{0};
static std::atomic<int> setlocale_while_threaded{0};
#ifdef XRLCALL_WRAP_SETLOCALE
// link-level observer (-Wl,--wrap=setlocale): POSIX documents setlocale as MT-Unsafe, so any call that changes the locale while more than
// one worker is inside the library is a race by specification, even though ThreadSanitizer cannot look into libc
extern "C" char *__real_setlocale(int, const char *);
extern "C" char *__wrap_setlocale(int cat, const char *loc) {
  if (loc != NULL && live_workers.load() > 1) setlocale_while_threaded++;
  return __real_setlocale(cat, loc);
}
#endif
struct TArg { const std::vector<std::string> *lines; size_t k, T; std::vector<std::string> out; pthread_barrier_t *bar; unsigned yield_seed; bool lockstep; };
// a call made with an error slot that still holds an earlier error (the caller did not clear it): the library warns on stderr and leaves the slot
// alone; result discarded - this only exercises the overwrite path, concurrently in threads mode
static void run_dirty(const std::string &line) {
  Ctx c;
  c.tok = split(line);
  callfn f = lookup(c.tok[0]);
  if (!f) return;
  xrl_error *sent = NULL;
  ElementDensity(-5, &sent);
  c.mode = 2; c.slot = sent;
  f(c);
  if (c.slot) xrl_error_free(c.slot);
  c.slot = NULL;
  c.reset_args();
}

static void *tmain(void *p) {
  TArg *a = (TArg *) p;
  pthread_barrier_wait(a->bar);
  live_workers++;
  unsigned s = a->yield_seed * 2654435761u + (unsigned) a->k;
  size_t rounds = (a->lines->size() + a->T - 1) / a->T;
  for (size_t r = 0, i = a->k; r < rounds; r++, i += a->T) {
    // lockstep: all threads enter round r together, so the calls of one round (in focus mixes: the same call in every thread) really overlap and
    // stay close in the race detector's per-thread history, however the scheduler treats the threads; the calls of one round remain unordered
    if (a->lockstep) pthread_barrier_wait(a->bar);
    if (i >= a->lines->size()) continue;
    s = s * 1664525u + 1013904223u;
    if (a->yield_seed && (s >> 28) == 0) sched_yield();
    a->out.push_back(run_simple((*a->lines)[i], i % 5 == 4));      // every fifth call without an error slot (as in the serial reference, mode simplens)
    if (((s >> 20) & 7) == 0) run_dirty((*a->lines)[i]);
  }
  live_workers--;
  return NULL;
}

#ifndef XRLCALL_NO_MAIN
int main(int argc, char **argv) {
  // usage: xrlcall MODE callfile outfile [extra]     MODE = full | fullleak | simple | flush | fresh | threads:T:yieldseed
  if (argc < 4) { fprintf(stderr, "usage\n"); return 2; }
  std::string mode = argv[1];
  std::vector<std::string> lines = read_lines(argv[2]);
  FILE *out = fopen(argv[3], "w");
  if (!out) { perror(argv[3]); return 3; }
  if (mode == "full" || mode == "fullleak" || mode == "flush") {
    for (auto &l : lines) {
      if (mode == "flush") { fprintf(out, "B\n"); fflush(out); }
      std::string r = run_full(l, mode != "full");
      fputs(r.c_str(), out); fputc('\n', out);
      if (mode == "flush") fflush(out);
    }
  } else if (mode == "simpleleak") {
    for (auto &l : lines) {
      std::string r = run_simple(l);
      size_t h1 = heap_now();
      { std::string r2 = run_simple(l); }
      long hd = (long) heap_now() - (long) h1;
#ifdef HAVE_ASAN
      if (hd != 0 && lsan_budget-- > 0) {
        for (int k = 0; k < 10; k++) { std::string r3 = run_simple(l); }
        { volatile char scrub[65536]; memset((void *) scrub, 0, sizeof scrub); }
        if (__lsan_do_recoverable_leak_check() == 0) hd = 0;
      } else if (hd != 0) hd = 0;
#endif
      fputs(r.c_str(), out); fprintf(out, "\tH\t%ld\n", hd);
    }
  } else if (mode == "simple" || mode == "simplens") {
    if (getenv("XRLCALL_LOCALE") && !setlocale(LC_ALL, harness_locale())) setlocale(LC_ALL, "C");
    size_t li = 0;      // simplens: the serial reference of a threads run - every fifth call without an error slot, as there
    for (auto &l : lines) { std::string r = run_simple(l, mode == "simplens" && li % 5 == 4); li++; fputs(r.c_str(), out); fputc('\n', out); }
  } else if (mode == "history") {
    // argv[4] = file with "addr size" lines (hex): data/bss/rodata ranges contributed by libxrl.a (from the link map)
    std::vector<Range> ranges;
    if (argc > 4) { for (auto &l : read_lines(argv[4])) { Range r; r.table = 0; if (sscanf(l.c_str(), "%lx %lx %d", &r.addr, &r.size, &r.table) >= 2) ranges.push_back(r); } }
    if (!setlocale(LC_ALL, harness_locale())) setlocale(LC_ALL, "C.utf8");
    std::string loc0 = std::string(setlocale(LC_ALL, NULL)) + "|" + setlocale(LC_NUMERIC, NULL);
    char cwd0[4096]; if (!getcwd(cwd0, sizeof cwd0)) cwd0[0] = 0;
    g_share_user_crystals = true;      // one object per generated crystal for the whole history, as a program would keep it
    // hidden state of the C library that belongs to the caller: a strtok() walk in progress and the rand() sequence
    static char walk[] = "first;second;third";
    char *tok1 = strtok(walk, ";");
    srand(12345u); int r_expect; { unsigned s = 12345u; (void) s; r_expect = 0; }
    unsigned long long ck0 = fnv_ranges(ranges) ^ fnv_tls();
    unsigned long long ckt0 = fnv_ranges(ranges, 1);
    int fe_round0 = fegetround(), fe_exc0 = fegetexcept();      // floating-point environment of the caller: rounding mode, trapping mask
    mode_t um0 = umask(0); umask(um0);
    int so_saved = dup(1); int so_fd = memfd_create("xrlcall-stdout", 0); fflush(stdout); dup2(so_fd, 1);
    capture_begin();
    std::vector<std::string> res;
    int fds0 = 0, fds1 = 0;      // open file descriptors right before / right after the calls of the history
    {
      // the caller's thread carries whatever errno its own earlier work left: a different stale value before every call of the history
      // (the fresh-process reference runs with errno 0); nothing the library answers may depend on it
      static const int stale[] = {0, ERANGE, EDOM, ENOENT, EINVAL, 0, ERANGE};
      size_t k = 0;
      fds0 = count_open_fds();
      for (auto &l : lines) { errno = stale[(k++ * 7 + l.size()) % 7]; res.push_back(run_keep(l)); }
      fds1 = count_open_fds();
    }
    std::string serr = capture_end();
    fflush(stdout); dup2(so_saved, 1);
    off_t n = lseek(so_fd, 0, SEEK_END);
    std::string sout((size_t) (n > 0 ? n : 0), 0);
    if (n > 0 && pread(so_fd, &sout[0], (size_t) n, 0) < 0) sout.clear();
    unsigned long long ck1 = fnv_ranges(ranges) ^ fnv_tls();
    std::string loc1 = std::string(setlocale(LC_ALL, NULL)) + "|" + setlocale(LC_NUMERIC, NULL);
    char cwd1[4096]; if (!getcwd(cwd1, sizeof cwd1)) cwd1[0] = 0;
    bool errs_ok = true;
    for (auto &ke : kept_errors) { if (errdesc(ke.first) != ke.second) errs_ok = false; if (ke.first) xrl_error_free(ke.first); }
    for (auto &r : res) { fputs(r.c_str(), out); fputc('\n', out); }
    mode_t um1 = umask(0); umask(um1);
    char *tok2 = strtok(NULL, ";");
    int r_after = rand();
    srand(12345u); r_expect = rand();
    int libc_ok = (tok1 && tok2 && strcmp(tok2, "second") == 0 && r_after == r_expect) ? 1 : 0;
    int env_ok = (fegetround() == fe_round0 && fegetexcept() == fe_exc0 && um0 == um1 && libc_ok && fds1 == fds0) ? 1 : 0;
    fprintf(out, "STATE\t%llx\t%llx\t%d\t%d\t%d\t%s\t%s\t%zu\t%zu\t%d\n", ck0, ck1, loc0 == loc1 ? 1 : 0, strcmp(cwd0, cwd1) == 0 ? 1 : 0, errs_ok ? 1 : 0,
            serr.empty() ? "-" : hexenc(serr.c_str(), serr.size()).c_str(), sout.empty() ? "-" : hexenc(sout.c_str(), sout.size()).c_str(), kept_errors.size(), ranges.size(), env_ok);
    fseek(out, -1, SEEK_CUR); fprintf(out, "\t%d\n", fnv_ranges(ranges, 1) == ckt0 ? 1 : 0);      // 12th field: the shipped tables themselves are unchanged
  } else if (mode == "fresh") {
    if (!setlocale(LC_ALL, harness_locale())) setlocale(LC_ALL, "C.utf8");
    // every call in a child forked from a parent that has never called the library
    for (auto &l : lines) {
      int pfd[2];
      if (pipe(pfd) != 0) return 4;
      pid_t pid = fork();
      if (pid == 0) {
        close(pfd[0]);
        std::string r = run_simple(l);
        if (write(pfd[1], r.c_str(), r.size()) < 0) {}
        _exit(0);
      }
      close(pfd[1]);
      std::string r; char buf[4096]; ssize_t n;
      while ((n = read(pfd[0], buf, sizeof buf)) > 0) r.append(buf, (size_t) n);
      close(pfd[0]);
      int st; waitpid(pid, &st, 0);
      if (!WIFEXITED(st) || WEXITSTATUS(st) != 0) r = "X\tchild-died";
      fputs(r.c_str(), out); fputc('\n', out);
    }
  } else if (mode.rfind("threads:", 0) == 0) {
    g_share_user_crystals = true;
    if (getenv("XRLCALL_LOCALE") && !setlocale(LC_ALL, harness_locale())) setlocale(LC_ALL, "C");
    { int nul = open("/dev/null", O_WRONLY); if (nul >= 0) { dup2(nul, 2); close(nul); } }   // overwrite warnings of the dirty-slot calls; sanitizer reports go to log_path
    size_t T = (size_t) atoi(mode.c_str() + 8);
    const char *p = strchr(mode.c_str() + 8, ':');
    unsigned ys = p ? (unsigned) atoi(p + 1) : 0;
    const char *p2 = p ? strchr(p + 1, ':') : NULL;
    bool lockstep = p2 && atoi(p2 + 1) != 0;          // threads:T:yieldseed:1
    pthread_barrier_t bar;
    pthread_barrier_init(&bar, NULL, (unsigned) T);
    std::vector<TArg> args(T);
    std::vector<pthread_t> th(T);
    for (size_t k = 0; k < T; k++) { args[k].lines = &lines; args[k].k = k; args[k].T = T; args[k].bar = &bar; args[k].yield_seed = ys; args[k].lockstep = lockstep; pthread_create(&th[k], NULL, tmain, &args[k]); }
    for (size_t k = 0; k < T; k++) pthread_join(th[k], NULL);
    std::vector<size_t> idx(T, 0);
    for (size_t i = 0; i < lines.size(); i++) { size_t k = i % T; fputs(args[k].out[idx[k]++].c_str(), out); fputc('\n', out); }
    fprintf(out, "TSTATE\t%d\n", setlocale_while_threaded.load());
  } else { fprintf(stderr, "bad mode\n"); return 2; }
  fclose(out);
  return 0;
}
#endif
