"""Hypothesis strategies for chemical formulas + an independent reference evaluator (used by C06, C07, C16...)."""
from fractions import Fraction
from hypothesis import strategies as hs

# IUPAC symbols in order of atomic number (1..107); independent of the library's own table (which C15 cross-checks)
SYMBOLS = ("H He Li Be B C N O F Ne Na Mg Al Si P S Cl Ar K Ca Sc Ti V Cr Mn Fe Co Ni Cu Zn Ga Ge As Se Br Kr Rb Sr Y Zr Nb Mo Tc Ru Rh Pd "
           "Ag Cd In Sn Sb Te I Xe Cs Ba La Ce Pr Nd Pm Sm Eu Gd Tb Dy Ho Er Tm Yb Lu Hf Ta W Re Os Ir Pt Au Hg Tl Pb Bi Po At Rn Fr Ra Ac Th "
           "Pa U Np Pu Am Cm Bk Cf Es Fm Md No Lr Rf Db Sg Bh").split()
Z_OF = {s: i + 1 for i, s in enumerate(SYMBOLS)}


def subscript_strategy():
    ints = hs.integers(1, 40).map(str)
    big = hs.integers(41, 999).map(str)
    dec = hs.tuples(hs.integers(0, 30), hs.integers(1, 999)).map(lambda t: "%d.%s" % (t[0], str(t[1]).rstrip("0") or "5"))
    lead = hs.integers(1, 99).map(lambda k: "." + (str(k).rstrip("0") or "5"))
    tiny = hs.tuples(hs.integers(4, 12), hs.integers(1, 9)).map(lambda t: "0." + "0" * t[0] + str(t[1]))      # trace-level stoichiometry: 0.00000005
    longrun = hs.tuples(hs.integers(1, 9), hs.integers(18, 26)).map(lambda t: "%d." % t[0] + "0" * t[1])      # 2.0000000000000000000000: 20+ digits, value 2
    return hs.one_of(ints, ints, dec, big, lead, tiny, longrun)


def formula_strategy(symbols, max_depth=4, max_terms=4):
    """-> strategy of formula trees: list of terms; term = ('el', symbol, sub|None) | ('grp', [terms], sub|None)"""
    sub = hs.one_of(hs.none(), subscript_strategy())
    el = hs.tuples(hs.just("el"), hs.sampled_from(list(symbols)), sub)

    def extend(children):
        grp = hs.tuples(hs.just("grp"), hs.lists(children, min_size=1, max_size=max_terms), sub)
        return hs.one_of(el, grp)

    term = hs.recursive(el, extend, max_leaves=12)
    return hs.lists(term, min_size=1, max_size=max_terms)


def random_tree(rng, palette, depth=3, max_terms=4):
    """plain-random formula tree over a small palette of symbols, so that the same element recurs inside and outside groups and at several
    nesting levels (the shape merge logic stumbles over); same tree shape as formula_strategy"""
    def sub():
        k = rng.random()
        if k < 0.4:
            return None
        if k < 0.8:
            return str(rng.randint(2, 12))
        if k < 0.88:
            return "%d.%d" % (rng.randint(0, 9), rng.randint(1, 99))
        if k < 0.94:
            return "0." + "0" * rng.randint(4, 12) + str(rng.randint(1, 9))      # trace-level stoichiometry
        return ".%d" % rng.randint(1, 9)

    def terms(d):
        out = []
        for _ in range(rng.randint(1, max_terms)):
            if d > 0 and rng.random() < 0.4:
                out.append(("grp", terms(d - 1), sub()))
            else:
                out.append(("el", rng.choice(palette), sub()))
        return out
    return terms(depth)


def random_formula(rng, symbols=None):
    symbols = symbols or SYMBOLS[:92]
    palette = rng.sample(list(symbols), rng.randint(1, 4))
    return render(random_tree(rng, palette, depth=rng.randint(0, 3)))


def render(tree):
    out = []
    for t in tree:
        if t[0] == "el":
            out.append(t[1] + (t[2] or ""))
        else:
            out.append("(" + render(t[1]) + ")" + (t[2] or ""))
    return "".join(out)


def depth(tree):
    d = 0
    for t in tree:
        if t[0] == "grp":
            d = max(d, 1 + depth(t[1]))
    return d


def has_fraction(tree):
    for t in tree:
        if t[2] and "." in t[2]:
            return True
        if t[0] == "grp" and has_fraction(t[1]):
            return True
    return False


def counts(tree, mult=Fraction(1)):
    """exact algebraic expansion -> {Z: Fraction count}"""
    out = {}
    for t in tree:
        m = mult * (Fraction(t[2]) if t[2] else 1)
        if t[0] == "el":
            z = Z_OF[t[1]]
            out[z] = out.get(z, 0) + m
        else:
            for z, c in counts(t[1], m).items():
                out[z] = out.get(z, 0) + c
    return out


def permute(tree, rnd):
    """same formula with the top-level terms (and terms inside groups) reordered"""
    t2 = [(t[0], permute(t[1], rnd) if t[0] == "grp" else t[1], t[2]) for t in tree]
    rnd.shuffle(t2)
    return t2


def expand_one_group(tree):
    """distribute the multiplier of the first group found over its content (one level) -> new tree or None"""
    for i, t in enumerate(tree):
        if t[0] == "grp":
            m = Fraction(t[2]) if t[2] else Fraction(1)
            inner = []
            for u in t[1]:
                s = (Fraction(u[2]) if u[2] else Fraction(1)) * m
                inner.append((u[0], u[1], fmt_frac(s)))
            if any(x[2] is None for x in inner):
                return None
            return tree[:i] + inner + tree[i + 1:]
    return None


def fmt_frac(f):
    """decimal string exactly representing the fraction, or None when it needs more than 12 decimals"""
    if f.denominator == 1:
        return str(f.numerator)
    for nd in range(1, 13):
        s = f * (10 ** nd)
        if s.denominator == 1:
            digits = str(s.numerator).rjust(nd + 1, "0")
            return digits[:-nd] + "." + digits[-nd:]
    return None
