"""Scratch builds of the repository under test.  Always from the current working tree of VERIF_REPO
(default /repo), always into a fresh temporary directory outside /repo and /verif, removed by the caller.
"""
import os, re, shutil, subprocess, sys, tempfile, time

VERIF = os.path.dirname(os.path.dirname(os.path.abspath(__file__)))
REPO = os.environ.get("VERIF_REPO", "/repo")
JOBS = int(os.environ.get("VERIF_JOBS", str(os.cpu_count() or 4)))

SAN = "-fsanitize=address,undefined -fno-sanitize-recover=undefined -fno-omit-frame-pointer"
VARIANTS = {
    # tag: (CC, CXX, CFLAGS, LDFLAGS, default_library)
    "plain": ("gcc", "g++", "-O2 -g", "", "shared"),
    "plainstatic": ("gcc", "g++", "-O2 -g", "", "static"),
    "asan": ("clang", "clang++", "-O1 -g " + SAN, "-fsanitize=address,undefined", "static"),
    "fuzz": ("clang", "clang++", "-O1 -g -fsanitize=fuzzer-no-link " + SAN, "-fsanitize=address,undefined", "static"),
    "tsan": ("clang", "clang++", "-O1 -g -fsanitize=thread -fno-omit-frame-pointer", "-fsanitize=thread", "static"),
    "gasan": ("gcc", "g++", "-O1 -g " + SAN, "-fsanitize=address,undefined", "shared"),
}


class BuildError(Exception):
    pass


def scratch(prefix="xrlv."):
    base = os.environ.get("VERIF_TMP") or os.environ.get("TMPDIR") or "/var/tmp"
    os.makedirs(base, exist_ok=True)
    return tempfile.mkdtemp(prefix=prefix, dir=base)


def run(cmd, cwd=None, env=None, log=None, timeout=None):
    p = subprocess.run(cmd, cwd=cwd, env=env, stdout=subprocess.PIPE, stderr=subprocess.STDOUT, timeout=timeout)
    out = p.stdout.decode("utf-8", "replace")
    if log:
        with open(log, "a") as f:
            f.write("$ %s\n%s\n" % (" ".join(cmd), out))
    return p.returncode, out


def source_tree(sdir, config):
    """Configuration A: the repository as it is.  Configuration B: a scratch copy whose data/kissel_pe.dat is
    regenerated from data/kissel (tools/regen_kissel.py)."""
    if config == "A":
        return REPO
    dst = os.path.join(sdir, "srcB")
    if os.path.isdir(dst):
        return dst
    rc, out = run(["rsync", "-a", "--exclude", "/_build", "--exclude", "/.git", "--exclude", "/build", REPO + "/", dst + "/"])
    if rc != 0:
        raise BuildError("rsync failed: " + out)
    rc, out = run([sys.executable, os.path.join(VERIF, "tools", "regen_kissel.py"), dst, os.path.join(dst, "data", "kissel_pe.dat")])
    if rc != 0:
        raise BuildError("regen_kissel failed: " + out)
    return dst


def build(sdir, variant="plain", config="A", targets=None, extra_cflags=""):
    """meson + ninja build.  Returns dict(src, bdir, lib, incs)."""
    cc, cxx, cflags, ldflags, deflib = VARIANTS[variant]
    src = source_tree(sdir, config)
    bdir = os.path.join(sdir, "b_%s_%s" % (variant, config))
    env = dict(os.environ)
    env.update(CC=cc, CXX=cxx, CFLAGS=(cflags + " " + extra_cflags).strip(), CXXFLAGS=cflags, LDFLAGS=ldflags,
               ASAN_OPTIONS="detect_leaks=0", LC_ALL="C")
    log = os.path.join(sdir, "build_%s_%s.log" % (variant, config))
    t0 = time.time()
    rc, out = run(["meson", "setup", bdir, src, "-Ddefault_library=" + deflib, "-Dbuildtype=plain",
                   "-Dpython-bindings=disabled", "-Dpython-numpy-bindings=disabled", "-Dfortran-bindings=disabled"],
                  env=env, log=log)
    if rc != 0:
        raise BuildError("meson setup failed (see below)\n" + out[-4000:])
    if deflib == "static":
        libname = "src/libxrl.a"
    else:
        rc, out = run(["ninja", "-C", bdir, "-t", "targets", "all"], env=env)
        m = re.findall(r"^(src/libxrl\.so[0-9.]*): ", out, re.M)
        if not m:
            raise BuildError("no shared libxrl target in build graph")
        libname = sorted(m, key=len)[-1]
    tg = [libname] + [t for t in (targets or [])]
    rc, out = run(["ninja", "-C", bdir, "-j", str(JOBS)] + tg, env=env, log=log)
    if rc != 0:
        raise BuildError("ninja failed (see below)\n" + out[-6000:])
    lib = os.path.join(bdir, libname)
    if deflib == "shared":
        lib = os.path.realpath(lib)
    return dict(src=src, bdir=bdir, lib=lib, variant=variant, config=config, cc=cc, cxx=cxx, cflags=cflags,
                ldflags=ldflags, incs=[os.path.join(src, "include"), bdir, os.path.join(src, "src")],
                build_s=round(time.time() - t0, 1))


def compile_harness(sdir, b, sources, out, extra=None, cxx=None, libs=None):
    """Compile + link a C++ harness against the static library of build b."""
    cmd = [cxx or b["cxx"], "-std=gnu++17"] + b["cflags"].split() + ["-I" + i for i in b["incs"]]
    extra = list(extra or [])
    if any(os.path.basename(s) == "xrlcall.cpp" for s in sources):
        # every close() issued from the library's objects goes through the interpreter's wrapper: closing a descriptor that is not open stops the run
        extra += ["-DXRLCALL_WRAP_CLOSE", "-Wl,--wrap=close"]
    cmd += ["-I" + os.path.join(VERIF, "harness")] + extra + sources + [b["lib"]] + (libs or []) + ["-lm", "-o", out]
    rc, o = run(cmd, log=os.path.join(sdir, "harness.log"))
    if rc != 0:
        raise BuildError("harness compile failed: %s\n%s" % (" ".join(cmd), o[-6000:]))
    return out
