"""A locale whose decimal separator is ',' (the image ships only C / C.utf8 / POSIX): built with localedef into the scratch directory of the run.
Number parsing or printing that silently follows the process locale only shows under such a locale."""
import os, subprocess

NAME = "xx_XX"


def make_comma_locale(sdir):
    """-> dict(LOCPATH=..., name=NAME) or None when localedef is not available / fails (the callers then skip their comma-locale part)"""
    d = os.path.join(sdir, "locales")
    if os.path.exists(os.path.join(d, NAME, "LC_NUMERIC")):
        return dict(LOCPATH=d, name=NAME)
    os.makedirs(d, exist_ok=True)
    src = os.path.join(sdir, "locale_src")
    os.makedirs(src, exist_ok=True)
    with open(os.path.join(src, "ASCII"), "w") as f:
        f.write("<code_set_name> ANSI_X3.4-1968\n<comment_char> %\n<escape_char> /\n<mb_cur_min> 1\n<mb_cur_max> 1\nCHARMAP\n")
        for i in range(128):
            f.write("<U%04X>     /x%02x         CHAR%d\n" % (i, i, i))
        f.write("END CHARMAP\n")
    with open(os.path.join(src, NAME), "w") as f:
        f.write('comment_char %\nescape_char /\nLC_NUMERIC\ndecimal_point ","\nthousands_sep "."\ngrouping 3;3\nEND LC_NUMERIC\n')
    try:
        subprocess.run(["localedef", "-c", "-f", os.path.join(src, "ASCII"), "-i", os.path.join(src, NAME), os.path.join(d, NAME)],
                       stdout=subprocess.PIPE, stderr=subprocess.PIPE, timeout=120)
    except (OSError, subprocess.SubprocessError):
        return None
    if not os.path.exists(os.path.join(d, NAME, "LC_NUMERIC")):
        return None
    return dict(LOCPATH=d, name=NAME)
