"""Python side of the universal call interpreter (harness/xrlcall.cpp): encoding of call lines, building and running the harness,
decoding of result lines."""
import os, subprocess
import apigen, vbuild

VERIF = os.path.dirname(os.path.dirname(os.path.abspath(__file__)))


def hx(b):
    if b is None:
        return "NULL"
    if isinstance(b, str):
        try:
            b = b.encode("latin-1")
        except UnicodeEncodeError:
            return "u:" + b.encode("utf-8").hex()      # text beyond latin-1: the C side gets the UTF-8 bytes, the Java side the decoded string
    return "s:" + b.hex()


def crystal_builtin(name):
    return "c:" + (name if isinstance(name, bytes) else name.encode()).hex()


def crystal_user(cell, atoms):
    return "g:" + ";".join(float(v).hex() for v in cell) + "|" + "|".join("%d,%s,%s,%s,%s" % (a[0], float(a[1]).hex(), float(a[2]).hex(), float(a[3]).hex(), float(a[4]).hex()) for a in atoms)


def enc(kind, v):
    if kind == "i":
        return str(int(v))
    if kind == "d":
        return float(v).hex()
    if kind == "s":
        return hx(v)
    if kind == "crystal":
        return v if isinstance(v, str) else "cNULL"
    if kind in ("array", "out", "outc"):
        return "N" if v == "N" and kind == "out" else "-"     # "N": NULL for a double* / int* out parameter (xrlComplex* results are never NULL)
    if kind == "c":
        return float(v[0]).hex() + "," + float(v[1]).hex()
    raise ValueError(kind)


def line(name, kinds, args):
    return "\t".join([name] + [enc(k, a) for k, a in zip(kinds, args)])


def build_harness(sdir, b, cpp_wrappers=False, extra=None, tag=""):
    """generate the dispatch table from the headers of the tree that was built and compile the interpreter against its static library"""
    gen = os.path.join(sdir, "gen_" + b["variant"] + tag)
    os.makedirs(gen, exist_ok=True)
    h, desc = apigen.generate(b["src"], os.path.join(gen, "gen_dispatch.inc"))
    out = os.path.join(sdir, "xrlcall_%s_%s%s" % (b["variant"], b["config"], tag))
    flags = ["-I" + gen, "-Wno-deprecated-declarations", "-pthread"] + (extra or [])
    vbuild.compile_harness(sdir, b, [os.path.join(VERIF, "harness", "xrlcall.cpp")], out, extra=flags)
    return out, h, desc


def run(exe, mode, call_lines, sdir, tag, env=None, timeout=3600, extra_args=None):
    """-> (list of output lines, returncode, stderr text)"""
    cf = os.path.join(sdir, "calls_%s.txt" % tag)
    of = os.path.join(sdir, "out_%s.txt" % tag)
    with open(cf, "w") as f:
        f.write("\n".join(call_lines) + "\n")
    e = dict(os.environ)
    e["VERIF_TMP"] = sdir       # files the interpreter writes (private-array scenario) stay in the run's scratch directory
    e.setdefault("ASAN_OPTIONS", "detect_leaks=1:leak_check_at_exit=0:halt_on_error=1:exitcode=99:allocator_may_return_null=1:handle_abort=1")
    e.setdefault("UBSAN_OPTIONS", "halt_on_error=1:print_stacktrace=1:exitcode=98")
    e.setdefault("TSAN_OPTIONS", "halt_on_error=1:exitcode=97:second_deadlock_stack=1")
    if env:
        e.update(env)
    # sanitizer reports go to a log file: the interpreter redirects fd 2 while a call is running
    logp = os.path.join(sdir, "san_%s" % tag)
    for k in ("ASAN_OPTIONS", "UBSAN_OPTIONS", "TSAN_OPTIONS"):
        if k in e and "log_path" not in e[k]:
            e[k] += ":log_path=" + logp
    e["XRLCALL_ORACLE_LOG"] = logp + ".oracle"
    p = subprocess.run([exe, mode, cf, of] + list(extra_args or []), env=e, stdout=subprocess.PIPE, stderr=subprocess.PIPE, timeout=timeout)
    lines = open(of).read().split("\n") if os.path.exists(of) else []
    if lines and lines[-1] == "":
        lines.pop()
    err = p.stderr.decode("utf-8", "replace")
    import glob
    for f in sorted(glob.glob(logp + ".*")):
        try:
            err += open(f, errors="replace").read()
            os.unlink(f)
        except OSError:
            pass
    return lines, p.returncode, err


def parse(out_line):
    """'R\\t<res>\\tE\\t<err>[\\tN\\t..\\tP\\t..\\tS\\t..\\tH\\t..]' -> dict"""
    t = out_line.split("\t")
    d = dict(raw=out_line, result=None, err=None)
    if t[0] != "R" or len(t) < 4 or len(t) not in (4, 6, 12):
        d["bad"] = out_line if t[0] != "R" else "truncated:" + out_line[:80]      # a line cut short by a dying interpreter
        return d
    d["result"] = t[1]
    e = t[3]
    if e != "-":
        code, msg = e.split(":", 1)
        d["err"] = (int(code), bytes.fromhex(msg))
    if len(t) == 6 and t[4] == "H":
        d["heap"] = int(t[5])
    elif len(t) > 4:
        d["noslot_same"] = t[5] == "1"
        d["preset_ok"] = t[7] == "1"
        d["stderr"] = None if t[9] == "-" else bytes.fromhex(t[9])
        d["heap"] = int(t[11])
    return d


def value(result):
    """decode the result field into python values (floats for d:, int for i:, tuple for z:, raw string otherwise)"""
    main = result.split(";od=")[0].split(";oi=")[0].split(";oc=")[0] if result[:2] in ("d:", "i:", "z:") else result
    if main.startswith("d:"):
        return float.fromhex(main[2:])
    if main.startswith("i:"):
        return int(main[2:])
    if main.startswith("z:"):
        a, b = main[2:].split(",")
        return (float.fromhex(a), float.fromhex(b))
    return result
