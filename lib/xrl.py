"""Independent views of the repository used by the oracles:
   Headers  - #define values and XRL_EXTERN prototypes lexed from include/*.h (never compiled in)
   DataFiles - the shipped data/*.dat parsed with an own tokenizer
   Lib      - ctypes binding of a freshly built libxrl.so, every call returning (value, error)
"""
import ctypes, math, os, re
from ctypes import c_int, c_double, c_char_p, c_void_p, POINTER, Structure, byref

# ---------------------------------------------------------------------------------------------- headers

_DEF = re.compile(r"^[ \t]*#[ \t]*define[ \t]+([A-Za-z_][A-Za-z0-9_]*)[ \t]+(.+?)[ \t]*(?:/\*.*)?$", re.M)


def strip_comments(text):
    text = re.sub(r"/\*.*?\*/", lambda m: " " * 0 + "\n" * m.group(0).count("\n"), text, flags=re.S)
    text = re.sub(r"//[^\n]*", "", text)
    return text


class Headers:
    FILES = ["xraylib.h", "xraylib-shells.h", "xraylib-lines.h", "xraylib-auger.h", "xraylib-defs.h",
             "xraylib-nist-compounds.h", "xraylib-radionuclides.h", "xraylib-crystal-diffraction.h",
             "xraylib-parser.h", "xraylib-error.h", "xraylib-aux.h", "xraylib-deprecated.h"]

    def __init__(self, src):
        self.src = src
        self.raw = {}      # name -> raw text
        self.where = {}    # name -> header file
        self.text = {}
        inc = os.path.join(src, "include")
        # the headers a program sees: xraylib.h and whatever it includes from include/, recursively, in inclusion order (files that merely
        # sit in the directory, such as the historical lines_old.h, are not part of the API); the fixed list is the fallback for the shipped names
        order, seen = [], set()

        def follow(f):
            p = os.path.join(inc, f)
            if f in seen or not os.path.exists(p):
                return
            seen.add(f)
            order.append(f)
            for m in re.finditer(r'^[ \t]*#[ \t]*include[ \t]*"([^"]+)"', strip_comments(open(p, encoding="utf-8", errors="replace").read()), re.M):
                follow(os.path.basename(m.group(1)))
        follow("xraylib.h")
        for f in self.FILES:
            follow(f)
        for f in order:
            p = os.path.join(inc, f)
            t = open(p, encoding="utf-8", errors="replace").read()
            self.text[f] = t
            for m in _DEF.finditer(strip_comments(t)):
                name, val = m.group(1), m.group(2).strip()
                if "(" in name:
                    continue
                self.raw[name] = val
                self.where[name] = f
        self.val = {}
        for n in self.raw:
            v = self._eval(n, 0)
            if v is not None:
                self.val[n] = v
        self.protos = self._protos()

    def _eval(self, name, depth):
        if depth > 10 or name not in self.raw:
            return None
        expr = self.raw[name]
        if not re.fullmatch(r"[A-Za-z0-9_+\-*/(). \t]+", expr):
            return None

        def sub(m):
            tok = m.group(0)
            if re.fullmatch(r"[0-9.]+([eE][+-]?[0-9]+)?|[0-9]+", tok):
                return tok
            if tok in ("int",):
                return ""
            v = self._eval(tok, depth + 1)
            if v is None:
                raise KeyError(tok)
            return "(" + repr(v) + ")"
        try:
            e = re.sub(r"[0-9]+\.?[0-9]*[eE][+-]?[0-9]+|[A-Za-z_][A-Za-z0-9_]*|[0-9.]+", sub, expr)
            e = e.replace("()", "")
            return eval(e, {"__builtins__": {}}, {})
        except Exception:
            return None

    def family(self, suffix, header=None):
        """name -> int for every integer macro ending in suffix.  header=None: all of them, aliases included.  With a header name (kept as a hint of
        where the family lives in the shipped layout) only the *primary* macros are returned - those defined by an integer literal rather than by
        reference to another macro, and for lines the negative ones (the non-negative literals are the group macros KA/KB/LA/LB).  The selection is by
        what a definition says, not by the file it is in, so that moving macros between headers changes nothing."""
        out = {}
        for n, v in self.val.items():
            if not (n.endswith(suffix) and isinstance(v, int)):
                continue
            if header is not None:
                if not re.fullmatch(r"\(?\s*-?\s*[0-9]+\s*\)?", self.raw[n]):
                    continue
                if suffix == "_LINE" and v >= 0:
                    continue
            out[n] = v
        return out

    def _protos(self):
        protos = {}
        for f, t in self.text.items():
            t = strip_comments(t)
            t = re.sub(r"^[ \t]*#.*$", "", t, flags=re.M)
            for m in re.finditer(r"XRL_(?:EXTERN|DEPRECATED)\s+([^;{]+?)\s*\(([^;]*?)\)\s*;", t, re.S):
                head, args = m.group(1), m.group(2)
                hm = re.match(r"(.*?)([A-Za-z_][A-Za-z0-9_]*)$", head.strip(), re.S)
                ret, name = " ".join(hm.group(1).split()), hm.group(2)
                al = []
                if args.strip() not in ("", "void"):
                    for a in args.split(","):
                        a = " ".join(a.split())
                        am = re.match(r"(.*?)([A-Za-z_][A-Za-z0-9_]*)?(\[\])?$", a)
                        typ, an, arr = am.group(1).strip(), am.group(2), am.group(3)
                        if typ == "" and an:  # unnamed parameter such as "void *"
                            typ, an = an, None
                        if typ.endswith("struct") or typ in ("const", "unsigned", "struct"):
                            typ, an = (typ + " " + (an or "")).strip(), None
                        if arr:
                            typ += " *"
                        al.append((typ.replace(" *", "*").replace("* ", "*"), an))
                protos[name] = dict(ret=ret.replace(" *", "*"), args=al, header=f)
        return protos


# ---------------------------------------------------------------------------------------------- data files

def round11(x):
    """what survives the build: pr_data.c prints every table entry with %.10E"""
    return float("%.10E" % x)


class DataFiles:
    def __init__(self, src):
        self.dir = os.path.join(src, "data")
        self.malformed = {}     # file -> [(line number, text)] of lines that are not records

    def path(self, f):
        return os.path.join(self.dir, f)

    def tokens(self, f):
        with open(self.path(f)) as fh:
            return fh.read().split()

    def records(self, f, width):
        """line-oriented reading of a record file: -> (list of token lists of well-formed lines, list of (line number, text) of the others).
        The C reader is token oriented and gives up at the first token it cannot convert; reading by lines keeps every well-formed record
        of the shipped file, so a malformed line shows up as a difference instead of being mirrored."""
        good, bad = [], []
        with open(self.path(f)) as fh:
            for n, line in enumerate(fh, 1):
                tok = line.split()
                if not tok:
                    continue
                if len(tok) != width:
                    bad.append((n, line.strip()[:80]))
                    continue
                good.append((n, tok))
        return good, bad

    def scalar2(self, f):
        """'Z value' files -> {Z: value} (last record wins)"""
        good, bad = self.records(f, 2)
        out = {}
        for n, (a, b) in good:
            try:
                z, v = int(a), float(b)
            except ValueError:
                bad.append((n, "%s %s" % (a, b)))
                continue
            out[z] = v
        self.malformed[f] = bad
        return out

    def named3(self, f, scale=1.0):
        """'Z name value' files -> {(Z, name): value} (last record wins, like the loader)"""
        good, bad = self.records(f, 3)
        out = {}
        for n, (a, name, b) in good:
            try:
                z, v = int(a), float(b)
            except ValueError:
                bad.append((n, "%s %s %s" % (a, name, b)))
                continue
            out[(z, name)] = v / scale if scale != 1.0 else v
        self.malformed[f] = bad
        return out

    def spline3(self, f, has_nz=False):
        """'N then N rows of x y y2' per element -> {Z: (xs, ys, y2s)}"""
        t = self.tokens(f)
        out = {}
        i = 0
        zmax = None
        if has_nz:
            zmax = int(t[0])
            i = 1
        z = 1
        while i < len(t) and (zmax is None or z <= zmax):
            n = int(t[i])
            i += 1
            xs = [float(v) for v in t[i:i + 3 * n:3]]
            ys = [float(v) for v in t[i + 1:i + 3 * n:3]]
            y2 = [float(v) for v in t[i + 2:i + 3 * n:3]]
            i += 3 * n
            out[z] = (xs, ys, y2)
            z += 1
        return out

    def compton_profiles(self):
        """-> {Z: dict(occ=[...], pz=[...], total=[...], total2=[...], partial={shell: [...]}, partial2={...})}"""
        t = self.tokens("comptonprofiles.dat")
        out = {}
        i = 0
        z = 1
        while i + 1 < len(t):
            ns, npz = int(t[i]), int(t[i + 1])
            i += 2
            occ = [float(v) for v in t[i:i + ns]]; i += ns
            pz = [float(v) for v in t[i:i + npz]]; i += npz
            tot = [float(v) for v in t[i:i + npz]]; i += npz
            tot2 = [float(v) for v in t[i:i + npz]]; i += npz
            part, part2 = {}, {}
            for s in range(ns):
                if occ[s] > 0.0:
                    part[s] = [float(v) for v in t[i:i + npz]]; i += npz
            for s in range(ns):
                if occ[s] > 0.0:
                    part2[s] = [float(v) for v in t[i:i + npz]]; i += npz
            out[z] = dict(occ=occ, pz=pz, total=tot, total2=tot2, partial=part, partial2=part2)
            z += 1
        return out

    def kissel(self, nshell=31):
        """-> {Z: dict(total=(x,y,y2), config=[31], partial={shell: (edge, x, y, y2)})}; {} when the file is empty"""
        t = self.tokens("kissel_pe.dat")
        out = {}
        i = 0
        z = 1
        while i < len(t):
            n = int(t[i]); i += 1
            xs = [float(v) for v in t[i:i + 3 * n:3]]
            ys = [float(v) for v in t[i + 1:i + 3 * n:3]]
            y2 = [float(v) for v in t[i + 2:i + 3 * n:3]]
            i += 3 * n
            cfg = [float(v) for v in t[i:i + nshell]]; i += nshell
            part = {}
            for s in range(nshell):
                m = int(t[i]); i += 1
                if m == 0:
                    continue
                edge = float(t[i]); i += 1
                px = [float(v) for v in t[i:i + 3 * m:3]]
                py = [float(v) for v in t[i + 1:i + 3 * m:3]]
                p2 = [float(v) for v in t[i + 2:i + 3 * m:3]]
                i += 3 * m
                part[s] = (edge, px, py, p2)
            out[z] = dict(total=(xs, ys, y2), config=cfg, partial=part)
            z += 1
        return out


# ---------------------------------------------------------------------------------------------- ctypes binding

class XrlError(Structure):
    _fields_ = [("code", c_int), ("message", c_char_p)]


class xrlComplex(Structure):
    _fields_ = [("re", c_double), ("im", c_double)]


class CompoundData(Structure):
    _fields_ = [("nElements", c_int), ("nAtomsAll", c_double), ("Elements", POINTER(c_int)),
                ("massFractions", POINTER(c_double)), ("nAtoms", POINTER(c_double)), ("molarMass", c_double)]


class CompoundDataNIST(Structure):
    _fields_ = [("name", c_char_p), ("nElements", c_int), ("Elements", POINTER(c_int)),
                ("massFractions", POINTER(c_double)), ("density", c_double)]


class RadioNuclideData(Structure):
    _fields_ = [("name", c_char_p), ("Z", c_int), ("A", c_int), ("N", c_int), ("Z_xray", c_int),
                ("nXrays", c_int), ("XrayLines", POINTER(c_int)), ("XrayIntensities", POINTER(c_double)),
                ("nGammas", c_int), ("GammaEnergies", POINTER(c_double)), ("GammaIntensities", POINTER(c_double))]


class CrystalAtom(Structure):
    _fields_ = [("Zatom", c_int), ("fraction", c_double), ("x", c_double), ("y", c_double), ("z", c_double)]


class CrystalStruct(Structure):
    _fields_ = [("name", c_char_p), ("a", c_double), ("b", c_double), ("c", c_double), ("alpha", c_double),
                ("beta", c_double), ("gamma", c_double), ("volume", c_double), ("n_atom", c_int),
                ("atom", POINTER(CrystalAtom))]


_CT = {
    "int": c_int, "size_t": ctypes.c_size_t, "double": c_double, "const char*": c_char_p, "char*": c_void_p, "void": None,
    "xrl_error**": c_void_p, "struct compoundData*": POINTER(CompoundData), "struct compoundData": CompoundData,
    "struct compoundDataNIST*": POINTER(CompoundDataNIST), "struct radioNuclideData*": POINTER(RadioNuclideData),
    "xrlComplex": xrlComplex, "xrlComplex*": POINTER(xrlComplex), "Crystal_Struct*": POINTER(CrystalStruct),
    "Crystal_Array*": c_void_p, "char**": POINTER(c_char_p), "void*": c_void_p, "double*": POINTER(c_double),
    "int*": POINTER(c_int), "const xrl_error*": c_void_p, "xrl_error*": c_void_p, "xrl_error_code": c_int,
    "Crystal_Atom*": POINTER(CrystalAtom), "const char**": POINTER(c_char_p),
}


_LIBS = []            # every Lib created in this process (a worker has one or two)
SHADOW_SEED = None    # set by common.pmap in the worker before the item runs: the shadow log is on for every Lib created afterwards


SHADOW_KINDS = ("order-dependence", "repeat-dependence", "noslot-differs", "errno-dependence", "sibling-dependence")


def replay_shadow_item(item):
    """one shadow-replay finding re-enacted in a fresh process: the question cold, then in the recorded context -> list of findings"""
    lib_path, src, rec = item
    from common import Stats
    st = Stats()
    L = Lib(lib_path, Headers(src))
    L._shadow = None
    c = rec["case"]
    kind = rec["signature"].split(":")[0]
    enc = lambda a: a.encode("latin-1") if isinstance(a, str) else a
    name, args = c["fn"], tuple(enc(a) for a in c["args"])
    same = lambda a, b: a == b or (a != a and b != b)
    v0, e0 = L.call(name, *args)
    if kind == "order-dependence" and c.get("previous_call"):
        pc = c["previous_call"]
        L.call(pc[0], *[enc(a) for a in pc[1:]])
        v1, e1 = L.call(name, *args)
    elif kind == "repeat-dependence":
        v1, e1 = L.call(name, *args)
    elif kind == "noslot-differs":
        v1, e1 = L.noslot(name, *args), e0
    elif kind == "errno-dependence":
        ctypes.set_errno(int(c.get("stale_errno", 34)))
        v1, e1 = L.call(name, *args)
        ctypes.set_errno(0)
    elif kind == "sibling-dependence":
        sib = tuple(enc(a) for a in c["sibling"])
        L.call(name, *sib)
        v0, e0 = L.call(name, *sib)
        L.call(name, *args)
        v1, e1 = L.call(name, *sib)
    else:
        v1, e1 = L.call(name, *args)
    if not same(v0, v1) or (e0 is None) != (e1 is None):
        st.violation(rec["signature"], c, dict(value=v0, error=e0), dict(value=v1, error=e1))
    return st


def shadow_finish(st):
    """replay the shadow logs of all libraries of this worker into its Stats (called by common.pmap after the item's own work)"""
    for L in _LIBS:
        if L._shadow is not None:
            L.shadow_check(st)


class Lib:
    """(value, err) = lib.call('CS_Total', 26, 10.0);  err is None or (code, message)."""

    def __init__(self, path, headers):
        self.dll = ctypes.CDLL(path, use_errno=True)     # ctypes installs its private errno copy around every call: ctypes.set_errno() = the errno the library sees
        self.h = headers
        self.fn = {}
        self.unbound = []
        for name, p in headers.protos.items():
            try:
                f = getattr(self.dll, name)
            except AttributeError:
                self.unbound.append((name, "not exported"))
                continue
            try:
                f.restype = _CT[p["ret"]]
                f.argtypes = [_CT[a[0]] for a in p["args"]]
            except KeyError as e:
                self.unbound.append((name, "type " + str(e)))
                continue
            self.fn[name] = f
            p["has_err"] = bool(p["args"]) and p["args"][-1][0] == "xrl_error**"
        self._free = self.dll.xrl_error_free
        self._free.argtypes = [c_void_p]
        self._free.restype = None
        # queries that return a plain number and take an error slot: the ones the shadow log may ask again (nothing that builds or mutates objects)
        self._pure_numeric = {n for n, p in headers.protos.items() if n in self.fn and p.get("has_err") and p["ret"] in ("double", "int")
                              and n not in ("Crystal_ReadFile", "Crystal_AddCrystal", "Atomic_Factors")}
        _LIBS.append(self)
        if SHADOW_SEED is not None:
            self.shadow_start(SHADOW_SEED + len(_LIBS))

    _shadow = None

    def call(self, name, *args):
        f = self.fn[name]
        slot = c_void_p(None)
        v = f(*args, byref(slot))
        err = None
        if slot.value:
            e = ctypes.cast(slot, POINTER(XrlError)).contents
            err = (e.code, e.message)
            self._free(slot)
        if self._shadow is not None and name in self._pure_numeric:
            self._record(name, args, v, err is None)
        return v, err

    # ---- shadow log: what the check asked during its own work is asked again afterwards in another order, twice in a row and without an error
    #      slot; a pure function answers the same.  (Reaches what a once-per-cell enumeration with a fresh slot cannot: memoisation with a stale
    #      key, tables rewritten by an earlier call, failure detection that depends on the caller's slot.)
    def shadow_start(self, seed, cap=30000):
        import random
        self._shadow, self._shadow_n, self._shadow_cap, self._shadow_rng = [], 0, cap, random.Random(seed)

    def _record(self, name, args, v, ok):
        for a in args:
            if not (a is None or isinstance(a, (int, float, bytes))):
                return
        self._shadow_n += 1
        if len(self._shadow) < self._shadow_cap:
            self._shadow.append((name, args, v, ok))
        else:
            k = self._shadow_rng.randrange(self._shadow_n)      # reservoir sampling: every recorded call equally likely to be kept
            if k < self._shadow_cap:
                self._shadow[k] = (name, args, v, ok)

    def shadow_check(self, st, case_extra=None):
        log, rng = self._shadow or [], getattr(self, "_shadow_rng", None)
        self._shadow = None
        if not log:
            return
        order = list(range(len(log)))
        rng.shuffle(order)
        same = lambda a, b: a == b or (a != a and b != b)
        prev = None
        for i in order:
            name, args, v, ok = log[i]
            st.ev()
            shown = [a.decode("latin-1") if isinstance(a, bytes) else a for a in args]
            case = dict(case_extra or {}, fn=name, args=shown, previous_call=prev)
            v2, e2 = self.call(name, *args)
            if not same(v2, v) or (e2 is None) != ok:
                st.violation("order-dependence:" + name, case, dict(value=v, error=not ok), dict(value=v2, error=e2))
                break
            if rng.random() < 0.5:
                v3, e3 = self.call(name, *args)          # the same question twice in a row
                if not same(v3, v) or (e3 is None) != ok:
                    st.violation("repeat-dependence:" + name, case, dict(value=v, error=not ok), dict(value=v3, error=e3))
                    break
            v4 = self.noslot(name, *args)
            if not same(v4, v):
                st.violation("noslot-differs:" + name, case, v, v4)
                break
            if rng.random() < 0.5:
                # the caller's errno is the caller's business: whatever stale value it holds, the answer is the same
                stale = rng.choice((34, 33, 2, 22))
                ctypes.set_errno(stale)
                v5, e5 = self.call(name, *args)
                ctypes.set_errno(0)
                if not same(v5, v) or (e5 is None) != ok:
                    st.violation("errno-dependence:" + name, dict(case, stale_errno=stale), dict(value=v, error=not ok), dict(value=v5, error=e5))
                    break
            ipos = [k for k, a in enumerate(args) if isinstance(a, int) and not isinstance(a, bool) and abs(a) < 2 ** 30]
            if ipos and rng.random() < 0.5:
                # a sibling question (one integer argument replaced by a related value: -a-1 is how line macros map to table rows, a+-1 the
                # neighbouring cell, -a the mirrored one) has one answer, whether it follows itself or this question; and this question has its
                # answer right after the sibling.  Reaches one-slot memos keyed by a transformed argument.
                k = rng.choice(ipos)
                a = args[k]
                sib = list(args)
                sib[k] = rng.choice((-a - 1, a + 1, a - 1, -a, -a - 1))
                sib = tuple(sib)
                self.call(name, *sib)
                vs, es = self.call(name, *sib)
                self.call(name, *args)
                vt, et = self.call(name, *sib)
                v6, e6 = self.call(name, *args)
                sshown = [x.decode("latin-1") if isinstance(x, bytes) else x for x in sib]
                if not same(vs, vt) or (es is None) != (et is None):
                    st.violation("sibling-dependence:" + name, dict(case, sibling=sshown), dict(value=vs, error=es, asked="after itself"),
                                 dict(value=vt, error=et, asked="after the call in 'args'"))
                    break
                if not same(v6, v) or (e6 is None) != ok:
                    st.violation("order-dependence:" + name, dict(case, previous_call=[name] + sshown), dict(value=v, error=not ok), dict(value=v6, error=e6))
                    break
            prev = [name] + shown
        st.cls("shadow_replayed", len(order))

    def noslot(self, name, *args):
        return self.fn[name](*args, None)

    def val(self, name, *args):
        """value or None on error (error released)"""
        v, e = self.call(name, *args)
        return None if e is not None else v


def relerr(a, b):
    if a == b:
        return 0.0
    d = max(abs(a), abs(b))
    return abs(a - b) / d if d > 0 else 0.0
