"""Driver plumbing shared by all checks: statistics, violations, known findings, evidence, replay files."""
import hashlib, json, os, shutil, sys, time, traceback
import multiprocessing as mp

VERIF = os.path.dirname(os.path.dirname(os.path.abspath(__file__)))
sys.path.insert(0, os.path.join(VERIF, "lib"))
import vbuild  # noqa: E402

OUT = os.environ.get("VERIF_OUT") or VERIF   # where evidence/ and replays/ are written (scratch when testing mutants)
MAX_VIOL_KEPT = 2000
MAX_PER_SIG = 40


def seed_from_env():
    try:
        s = int(os.environ.get("VERIF_SEED", "1"))
    except ValueError:
        s = 1
    return s if s != 0 else 1


def mix(seed, *parts):
    h = hashlib.sha256(("%d|" % seed + "|".join(str(p) for p in parts)).encode()).digest()
    return int.from_bytes(h[:8], "little")


class Stats:
    """Mergeable per-worker statistics."""

    def __init__(self):
        self.evaluations = 0
        self.nontrivial = 0          # distinct by construction (enumerations)
        self.nt_hashes = set()       # distinct by hash (sampled parts)
        self.classes = {}
        self.samples = {}            # class -> list of sample cases (few)
        self.violations = []         # dicts: sig, case, expected, got, detail
        self.nviol = 0
        self.per_sig = {}
        self.notes = {}

    def ev(self, n=1):
        self.evaluations += n

    def nt(self, n=1):
        self.nontrivial += n

    def nt_key(self, *key):
        self.nt_hashes.add(hash(key))

    def cls(self, name, n=1):
        self.classes[name] = self.classes.get(name, 0) + n

    def sample(self, cls, case, cap=3):
        l = self.samples.setdefault(cls, [])
        if len(l) < cap:
            l.append(case)

    def violation(self, sig, case, expected=None, got=None, detail=None):
        self.nviol += 1
        n = self.per_sig.get(sig, 0)
        self.per_sig[sig] = n + 1
        if n < MAX_PER_SIG and len(self.violations) < MAX_VIOL_KEPT:
            self.violations.append(dict(sig=sig, case=case, expected=expected, got=got, detail=detail))

    def note(self, k, v):
        self.notes[k] = v

    def merge(self, o):
        self.evaluations += o.evaluations
        self.nontrivial += o.nontrivial
        self.nt_hashes |= o.nt_hashes
        for k, v in o.classes.items():
            self.classes[k] = self.classes.get(k, 0) + v
        for k, v in o.samples.items():
            l = self.samples.setdefault(k, [])
            for c in v:
                if len(l) < 3:
                    l.append(c)
        self.nviol += o.nviol
        kept = {}
        for v in self.violations:
            kept[v["sig"]] = kept.get(v["sig"], 0) + 1
        for v in o.violations:
            if kept.get(v["sig"], 0) < MAX_PER_SIG and len(self.violations) < MAX_VIOL_KEPT:
                self.violations.append(v)
                kept[v["sig"]] = kept.get(v["sig"], 0) + 1
        for k, n in o.per_sig.items():
            self.per_sig[k] = self.per_sig.get(k, 0) + n
        for k, v in o.notes.items():
            if isinstance(v, (int, float)) and isinstance(self.notes.get(k), (int, float)):
                if k.endswith("_min"):
                    self.notes[k] = min(self.notes[k], v)
                elif k.endswith("_max"):
                    self.notes[k] = max(self.notes[k], v)
                else:
                    self.notes[k] += v
            else:
                self.notes[k] = v
        return self

    @property
    def distinct_nontrivial(self):
        return self.nontrivial + len(self.nt_hashes)


def _pm_worker(args):
    func, item = args
    try:
        return func(item)
    except Exception:
        s = Stats()
        s.violation("infra:worker-exception", dict(item=repr(item)[:300]), detail=traceback.format_exc()[-3000:])
        s.note("infra_error", 1)
        return s


def _child(func, item, conn):
    try:
        import xrl
        if os.environ.get("VERIF_SHADOW", "1") != "0":
            key = [x for x in item if isinstance(x, (int, float, str, tuple, list)) and not str(x).startswith("/")] if isinstance(item, (tuple, list)) else item
            xrl.SHADOW_SEED = mix(int(os.environ.get("VERIF_SEED", "1") or 1), "shadow", repr(key)[:400]) % (2**31)   # no scratch paths in the key
        r = _pm_worker((func, item))
        if isinstance(r, Stats):
            xrl.shadow_finish(r)      # the item's own queries again: other order, twice in a row, without an error slot (lib/xrl.py)
        conn.send(r)
    except BaseException:
        try:
            s = Stats()
            s.violation("infra:worker-exception", dict(item=repr(item)[:300]), detail=traceback.format_exc()[-3000:])
            conn.send(s)
        except Exception:
            pass
    finally:
        conn.close()
        os._exit(0)


def pmap(func, items, jobs=None, crash_sig="crash"):
    """One forked child per item (at most `jobs` at a time); func(item) -> Stats, merged in item order.
    A child killed by a signal (segfault inside the library) becomes a violation instead of a hang."""
    import multiprocessing.connection as mpc
    items = list(items)
    jobs = min(jobs or vbuild.JOBS, max(1, len(items)))
    ctx = mp.get_context("fork")
    results = [None] * len(items)
    running = {}
    nxt = 0
    while nxt < len(items) or running:
        while nxt < len(items) and len(running) < jobs:
            pr, pw = ctx.Pipe(duplex=False)
            p = ctx.Process(target=_child, args=(func, items[nxt], pw))
            p.start()
            pw.close()
            running[pr] = (nxt, p)
            nxt += 1
        ready = mpc.wait(list(running), timeout=1.0)
        for pr in ready:
            idx, p = running.pop(pr)
            try:
                results[idx] = pr.recv()
            except (EOFError, OSError):
                p.join()
                it = items[idx]
                desc = [x for x in it if isinstance(x, (int, float, str)) and not str(x).startswith("/")][:8] if isinstance(it, (tuple, list)) else repr(it)[:200]
                s = Stats()
                s.violation("%s:signal%s" % (crash_sig, -p.exitcode if p.exitcode and p.exitcode < 0 else p.exitcode),
                            dict(item=desc), expected="no crash", got="worker process died (exit code %r)" % p.exitcode)
                results[idx] = s
            pr.close()
            p.join()
    total = Stats()
    for r in results:
        total.merge(r)
    return total


class Ctx:
    def __init__(self, pid, tier, seed, replay=None):
        self.pid, self.tier, self.seed, self.replay = pid, tier, seed, replay
        self.quick = tier == "quick"
        self.sdir = vbuild.scratch("xrlv.%s." % pid)
        os.environ["VERIF_TMP"] = self.sdir      # every temporary file of workers and interpreters lives (and dies) with the run's scratch directory
        self.t0 = time.time()
        self.stats = Stats()
        self.rule = ""
        self.assumptions = []
        self.exhaustive = False
        self.extra = {}
        self.level = "exploration"

    def build(self, variant="plain", config="A", targets=None, extra_cflags=""):
        return vbuild.build(self.sdir, variant, config, targets, extra_cflags)

    def cleanup(self):
        if os.environ.get("VERIF_KEEP"):
            print("scratch kept: " + self.sdir)
            return
        shutil.rmtree(self.sdir, ignore_errors=True)


# ------------------------------------------------------------------------------------ findings / replay / evidence

def load_findings():
    p = os.path.join(VERIF, "known_findings.json")
    if not os.path.exists(p):
        return []
    return json.load(open(p))


def finding_matches(f, pid, v):
    if f.get("property") != pid or f.get("status") != "known":
        return False
    if f.get("signature") != v["sig"]:
        return False
    cases = f.get("cases")
    if cases is None:
        return True
    return json.dumps(v["case"], sort_keys=True) in [json.dumps(c, sort_keys=True) for c in cases]


def jsonable(x):
    if isinstance(x, float):
        if x != x or x in (float("inf"), float("-inf")):
            return repr(x)
        return x
    if isinstance(x, bytes):
        return x.decode("utf-8", "backslashreplace")
    if isinstance(x, dict):
        return {str(k): jsonable(v) for k, v in x.items()}
    if isinstance(x, (list, tuple, set)):
        return [jsonable(v) for v in x]
    if isinstance(x, (int, str, bool)) or x is None:
        return x
    return repr(x)


def write_replay(pid, v, seed):
    d = os.path.join(OUT, "replays", pid)
    os.makedirs(d, exist_ok=True)
    body = jsonable(dict(property=pid, signature=v["sig"], case=v["case"], expected=v.get("expected"), got=v.get("got"),
                         detail=v.get("detail"), seed=seed))
    name = hashlib.sha1(json.dumps(dict(s=body["signature"], c=body["case"]), sort_keys=True).encode()).hexdigest()[:16] + ".json"
    p = os.path.join(d, name)
    with open(p, "w") as f:
        json.dump(body, f, indent=1, sort_keys=True)
    return p


def finish(ctx):
    """Known-finding handling, evidence, VIOLATION lines.  Returns the exit code."""
    st = ctx.stats
    findings = load_findings()
    known_hit = {}
    new = {}
    for v in st.violations:
        v["case"] = jsonable(v["case"])
        hit = None
        for f in findings:
            if finding_matches(f, ctx.pid, v):
                hit = f
                break
        if hit is not None:
            known_hit.setdefault(hit["id"], [hit, 0])[1] += 1
        else:
            new.setdefault(v["sig"], []).append(v)
    for fid, (f, n) in sorted(known_hit.items()):
        print("KNOWN-FINDING: property=%s %s [%s; %d case(s) this run]" % (ctx.pid, f.get("what", ""), fid, n))
    rc = 0
    reported = 0
    for sig, vs in sorted(new.items()):
        p = write_replay(ctx.pid, vs[0], ctx.seed)
        print("VIOLATION property=%s replay=%s" % (ctx.pid, p))
        print("  signature=%s cases=%s first=%s expected=%s got=%s" % (
            sig, st.per_sig.get(sig, len(vs)), json.dumps(vs[0]["case"])[:300], str(jsonable(vs[0].get("expected")))[:200], str(jsonable(vs[0].get("got")))[:200]))
        if vs[0].get("detail"):
            print("  detail: " + str(vs[0]["detail"])[:1500].replace("\n", "\n    "))
        rc = 1
        reported += 1
    if st.nviol > len(st.violations):
        print("  (%d further violating cases not kept)" % (st.nviol - len(st.violations)))
    samples = []
    for k in sorted(st.samples):
        for c in st.samples[k]:
            samples.append(dict({"class": k}, case=jsonable(c)))
    samples = samples[:60]
    cov = dict(evaluations=int(st.evaluations), distinct_nontrivial=int(st.distinct_nontrivial), rule=ctx.rule,
               samples=samples, classes=dict(sorted(st.classes.items())), exhaustive=bool(ctx.exhaustive),
               known_findings_hit={k: v[1] for k, v in known_hit.items()}, new_violation_signatures=sorted(new))
    cov.update(jsonable(st.notes))
    cov.update(jsonable(ctx.extra))
    ev = dict(property_id=ctx.pid, tier=ctx.tier, seed=int(ctx.seed), level=ctx.level, coverage=cov,
              assumptions=ctx.assumptions, wall_s=round(time.time() - ctx.t0, 2), violations=int(reported))
    os.makedirs(os.path.join(OUT, "evidence"), exist_ok=True)
    with open(os.path.join(OUT, "evidence", ctx.pid + ".json"), "w") as f:
        json.dump(ev, f, indent=1, sort_keys=True)
    print("%s tier=%s seed=%d evaluations=%d distinct_nontrivial=%d violations=%d wall=%.1fs" % (
        ctx.pid, ctx.tier, ctx.seed, st.evaluations, st.distinct_nontrivial, reported, time.time() - ctx.t0))
    return rc
