"""Generation of call sweeps over the whole exported API (argument classes derived from C type + parameter name) and the generic
error-contract oracle of C03.  Shared by C03, C04, C16, C17, C18 and C19."""
import itertools, math, random
import xrl, calls, apigen, formulas
from common import mix

PI = math.pi
INT_MIN, INT_MAX = -2**31, 2**31 - 1

POSITIVE = set("""AtomicWeight ElementDensity CS_Total CS_Photo CS_Rayl CS_Compt CS_KN CS_Energy CSb_Total CSb_Photo CSb_Rayl CSb_Compt DCS_Thoms DCS_KN
LineEnergy FluorYield CosKronTransProb EdgeEnergy JumpFactor RadRate ComptonEnergy CS_Photo_Total CSb_Photo_Total CS_Photo_Partial CSb_Photo_Partial
CS_Total_Kissel CSb_Total_Kissel ElectronConfig ComptonProfile ComptonProfile_Partial AtomicLevelWidth AugerRate AugerYield Crystal_UnitCellVolume
Crystal_dSpacing Bragg_angle SF_Compt CS_Total_CP CS_Photo_CP CS_Rayl_CP CS_Compt_CP CSb_Total_CP CSb_Photo_CP CSb_Rayl_CP CSb_Compt_CP CS_Energy_CP
CS_Photo_Total_CP CSb_Photo_Total_CP CS_Total_Kissel_CP CSb_Total_Kissel_CP""".split())
FAILURE_IS_ZERO = {"Atomic_Factors", "SymbolToAtomicNumber", "Crystal_AddCrystal", "Crystal_ReadFile"}
IO_OR_CAPACITY = {"Crystal_ReadFile", "Crystal_AddCrystal", "Crystal_ArrayInit"}
NO_SLOT_API = {"c_abs", "c_mul", "XRayInit", "SetHardExit", "SetExitStatus", "GetExitStatus", "SetErrorMessages", "GetErrorMessages"}


def is_positive(fn):
    """strictly positive physical quantities: 0 without an error is a contract violation.  NOT on the list because 0 or negative values are
    physical: Fi, Fii, MomentTransf, DCSP_* (vanish at theta=pi/2, phi=0), DCS_Rayl/Compt (form factor can vanish), Q_scattering_amplitude,
    Refractive_Index*, structure factors, c_abs/c_mul, and the jump-ratio CS(b)_FluorLine/Shell (tabulated jump ratio 1 gives a share of 0)"""
    return fn in POSITIVE or fn.startswith(("CS_FluorLine_Kissel", "CSb_FluorLine_Kissel", "CS_FluorShell_Kissel", "CSb_FluorShell_Kissel"))


GENERIC = set()    # "function:type name" of parameters that fell back to a generic value class (reported in the evidence)


class Values:
    def __init__(self, h, src, seed):
        self.h = h
        df = xrl.DataFiles(src)
        self.edges = {}
        for (z, sh), e in df.named3("edges.dat", 1000.0).items():
            self.edges.setdefault(z, []).append(e)
        self.lines = sorted(set(h.family("_LINE", "xraylib-lines.h").values()) | {0, 1, 2, 3})
        self.augers = sorted(h.family("_AUGER", "xraylib-auger.h").values())
        self.nnist = len([k for k in h.val if k.startswith("NIST_COMPOUND_")])
        self.nnuc = len([k for k in h.val if k.startswith("RADIO_NUCLIDE_")])
        self.nist_names = []
        self.nuc_names = []
        self.crystal_names = []
        self.rng = random.Random(mix(seed, "apisweep"))

    # ---- discrete classes
    def ints(self, pname, fn, quick):
        p = (pname or "").lower()
        if p == "z":
            return list(range(-3, 126)) + [INT_MIN, INT_MAX]
        if p == "shell":
            return list(range(-2, 34)) + [INT_MIN, INT_MAX]
        if p == "line":
            lo, hi = min(self.lines), max(self.lines)
            return list(range(lo - 3, hi + 4)) + [INT_MIN, INT_MAX]
        if p == "trans":
            return list(range(-1, 17)) + [INT_MIN, INT_MAX]
        if p == "auger_trans":
            lo, hi = min(self.augers), max(self.augers)
            full = list(range(lo - 2, hi + 3))
            return (full[::7] + full[:4] + full[-4:] if quick else full) + [INT_MIN, INT_MAX]
        if p.endswith("_miller"):
            return [-6, -2, -1, 0, 1, 2, 3, 6] if quick else list(range(-6, 7))
        if p.endswith("_flag"):
            return [-1, 0, 1, 2, 3]
        if p == "compoundindex":
            return list(range(-2, self.nnist + 3)) + [INT_MIN, INT_MAX]
        if p == "radionuclideindex":
            return list(range(-2, self.nnuc + 3)) + [INT_MIN, INT_MAX]
        if p == "n_crystal_alloc":
            return list(range(-1, 13)) + [INT_MIN]
        if p in ("hard_exit", "exit_status", "status"):
            return [0, 1]
        GENERIC.add("%s:int %s" % (fn, pname))      # a parameter name without a class of its own: generic integers
        return list(range(-3, 12)) + [100, 1000, INT_MIN, INT_MAX]

    # ---- continuous classes
    def doubles(self, pname, fn, z, n):
        p = (pname or "").lower()
        r = self.rng
        if p in ("e", "e0", "energy"):
            base = [-1.0, 0.0, 1e-300, 1e-6, 0.1 * (1 - 1e-9), 0.5, 1.0 * (1 - 1e-9), 1.0, 1.0 * (1 + 1e-9), 10.0, 100.0, 1000.0 * (1 - 1e-9), 1000.0, 1000.0 * (1 + 1e-6), 1e4,
                    1e300]
            ed = sorted(self.edges.get(z, [])[:9])
            for e in ed:
                base += [e * (1 - 1e-9), e, e * (1 + 1e-9)]
            # the windows between neighbouring edges (L3..L2, L2..L1, M5..M4, ...) are regions of their own for the jump-ratio and cascade code and
            # far too narrow for log-uniform draws: their midpoints are argument classes too
            base += [0.5 * (a + b) for a, b in zip(ed, ed[1:]) if b > a]
            out = r.sample(base, min(len(base), max(2, n // 2)))
            out += [10.0 ** r.uniform(-1.5, 3.2) for _ in range(n - len(out))]
            return out
        if p in ("theta", "phi"):
            base = [0.0, 1e-8, -1e-8, PI / 2, PI, 2 * PI, -PI / 3, 1e6, 2.5]
            out = r.sample(base, min(len(base), max(1, n // 2)))
            return out + [r.uniform(-4 * PI, 4 * PI) for _ in range(n - len(out))]
        if p in ("q", "pz"):
            base = [-1.0, 0.0, 1e-9, 0.5, 1.0, 10.0, 100.0, 1e9, 1e300]
            out = r.sample(base, min(len(base), max(1, n // 2)))
            return out + [10.0 ** r.uniform(-3, 2.5) for _ in range(n - len(out))]
        if p == "density":
            return r.sample([-1.0, 0.0, 1.0, 2.5, 19.3, 1e-300, 1e300], min(7, max(1, n // 2))) + [r.uniform(1e-3, 25.0) for _ in range(max(1, n // 2))]
        if p == "debye_factor":
            return r.sample([-1.0, 0.0, 1.0, 0.5, 1e-300], min(5, max(1, n // 2))) + [r.uniform(0.01, 1.0) for _ in range(max(1, n // 2))]
        if p == "rel_angle":
            return r.sample([0.0, 1.0, 2.0, -1.0, 0.5], min(5, max(1, n // 2))) + [r.uniform(0.01, 2.0) for _ in range(max(1, n // 2))]
        if p in ("weighta", "weightb"):
            return [r.uniform(0.01, 0.99) for _ in range(n)]
        GENERIC.add("%s:double %s" % (fn, pname))
        return r.sample([-1.0, 0.0, 1e-300, 1e-6, 0.5, 1.0, 10.0, 1e3, 1e300], min(9, max(2, n // 2))) + [10.0 ** r.uniform(-3, 3) for _ in range(max(1, n // 2))]

    def strings(self, pname, fn, n):
        p = (pname or "").lower()
        r = self.rng
        if p in ("compound", "compoundstring") and fn not in ("GetCompoundDataNISTByName",):
            pool = ["H2O", "Ca5(PO4)3OH", "C6H12O6", "(NH4)2SO4", "Fe0.5Ni.25O1.25", "UO2(NO3)2(H2O)6", "Es2O3", "Pb", "LaB6", "SiO2", "(H2O)", "Mg(O(OH)2)3",
                    "Ca5.522(PO4.48)3OH", "Fe0.947O", "YBa2Cu3O6.93", "H0.5O0.25"]      # total atom counts that are not integers
            must = ["Ca" + "(" * k + "OH" + ")" * k + "2" for k in (15, 16, 17, 31, 32, 33, 63, 64, 65)]      # deep but well-formed nesting, around powers of two
            must += ["H2.00000000000000000000O", "Fe2O3.0000000000000000000", "SiO18446744073709551616", "C12345678901234567890123H"]   # very long digit runs
            must += ["Fe0.9470000000000001O", "Ga0.30000000000000004As0.7", "Pb12.345678901234567Te", "C0.3333333333333333H0.6666666666666667"]    # shortest round-trip texts of doubles: 16-17 digits
            must += ["CH2" * 400 + "Pb", "(" + "SiO2" * 300 + ")2U", "H" * 1023 + "O", "H" * 1024 + "O", "C" * 4095 + "O2"]     # beyond any fixed buffer
            must += ["50%% glycerol", "Glycerol 20%mass", "NaCl 10%solution", "%s%s%s%s%s%s%s%s", "%n%n", "H2O%d", "100%"]            # printf conversions in a name
            bad = ["RfDb", "Rf2(SgO4)3", "DbBhO2", "Xx2Rf",                             # more than one reason to reject
                   None, "", "Hx", "h2o", "H2O ", "(H2O", "H2O)", "2H", "Rf", "H0", "He2..3", "Water", "()", "H2O\x01", "\xc3\xa9", "(SiO2)0", "Ca(OH)0", "(H2O)0.0",
                   "H.", "Ca.O", "H2(SO4).", "Ca5(PO4)0F", "Si" * 150, "(" * 40 + "H" + ")" * 40]
            if n >= 12:     # hand-picked members are all used, in a drawn order; only the generated ones are sampled
                out = r.sample(pool, len(pool)) + r.sample(bad, len(bad))
            else:
                out = r.sample(pool, min(len(pool), max(1, n // 3))) + r.sample(bad, min(len(bad), max(1, n // 3)))
            for _ in range(max(1, n // 4)):     # single-character mutants of valid formulas
                f = r.choice(pool)
                k = r.randrange(len(f) + 1)
                ch = r.choice("()0123456789..AaHOx ")
                out.append(r.choice([f[:k] + ch + f[k:], f[:k] + f[k + 1:], f[:k] + ch + f[k + 1:]]))
            for _ in range(max(1, n // 3)):     # generated well-formed formulas over a small palette: elements recur inside and outside groups
                out.append(formulas.random_formula(r))
            if self.nist_names:
                out += r.sample(self.nist_names, min(len(self.nist_names), max(1, n // 3)))
            # two long formulas that agree in their first 40+ characters, next to each other and then the first again: a lookup that identifies a
            # compound by a truncated or hashed form of its name mixes them up
            out += must if n >= 12 else r.sample(must, 2)
            stem = "Fe0.70Cr0.18Ni0.08Mn0.02Si0.01C0.0004P0.0002S0.0001"
            out += [stem + "Mo0.01", stem + "Mo0.09", stem + "Mo0.01", "Si0.9999995B0.0000005"]
            return out
        if p == "compoundstring":
            return (r.sample(self.nist_names, min(len(self.nist_names), max(1, n - 4))) if self.nist_names else []) + [None, "", "water, liquid", "H2O", "y" * 300,
                    "50%% glycerol", "Glycerol 20%mass", "NaCl 10%solution", "%s%s%s%s%s%s%s%s", "%n%n", "100%", "Water%5$s"]      # printf conversions in a name
        if p == "radionuclidestring":
            return self.nuc_names + [None, "", "55fe", "Fe55", "z" * 300, "%s%s%s%s%s%s", "55Fe%n", "10%d"]
        if p == "symbol":
            return r.sample(formulas.SYMBOLS, min(107, max(1, n))) + [None, "", "h", "HE", "Xx", "Uuo"]
        if p == "material":
            return (r.sample(self.crystal_names, min(len(self.crystal_names), max(1, n))) if self.crystal_names else ["Si"]) + [None, "", "si", "Unobtainium", "x" * 300, "%s%s%s%s%s%s", "Si%n", "Ge%220s"]
        if p == "file_name":
            return [None, "/nonexistent/file.dat"]
        GENERIC.add("%s:string %s" % (fn, pname))
        return [None, "", "H2O", "Si", "x" * 300, "\x01"] + (r.sample(self.nist_names, min(len(self.nist_names), 2)) if self.nist_names else [])

    def crystals(self, n):
        r = self.rng
        out = [calls.crystal_builtin(nm) for nm in (r.sample(self.crystal_names, min(len(self.crystal_names), max(1, n - 2))) if self.crystal_names else ["Si"])]
        out.append("cNULL")
        if getattr(self, "_user_crystals", None) and r.random() < 0.7:
            return out + list(self._user_crystals)       # the same generated crystals recur across functions (a program builds a crystal once and asks many things)
        al, be = r.uniform(60, 120), r.uniform(60, 120)
        ca, cb = math.cos(math.radians(al)), math.cos(math.radians(be))
        cg = ca * cb + r.uniform(-0.9, 0.9) * math.sqrt((1 - ca * ca) * (1 - cb * cb) - 0.05)
        cell = [r.uniform(2, 30), r.uniform(2, 30), r.uniform(2, 30), al, be, math.degrees(math.acos(cg))]
        atoms = [(r.randint(1, 98), r.choice([1.0, r.uniform(0.05, 1.0)]), r.random(), r.random(), r.random()) for _ in range(r.randint(1, 6))]
        out.append(calls.crystal_user(cell, atoms))
        # the same cell with one unusable atom that is NOT the first one (an element without form factors, or no element at all): the call must
        # fail as a whole - what the earlier atoms contributed must not come back with the error
        bad = list(atoms) + [(r.choice([99, 0, 130, -1, 5000]), r.choice([1.0, 0.0]), r.random(), r.random(), r.random())]     # also as a vacant site (occupancy 0)
        if len(bad) > 2 and r.random() < 0.5:
            k = r.randrange(1, len(bad) - 1)
            bad[k], bad[-1] = bad[-1], bad[k]
        out.append(calls.crystal_user(cell, bad))
        out.append("g:" + ";".join(float(v).hex() for v in cell))      # the same cell without any atom
        if not getattr(self, "_user_crystals", None):
            self._user_crystals = out[-3:]
        return out


def sweep(h, desc, vals, fn, budget, quick):
    """-> list of (kinds, args) for one function, at most ~budget tuples"""
    d = desc[fn]
    kinds = apigen.arg_kinds(d)
    names = [n for t, n in zip(d["args"], d["argnames"]) if t != "xrl_error**"]
    int_pos = [i for i, k in enumerate(kinds) if k == "i"]
    int_sets = [vals.ints(names[i], fn, quick) for i in int_pos]
    total = 1
    for s in int_sets:
        total *= len(s)
    cont_pos = [i for i, k in enumerate(kinds) if k in ("d", "s", "crystal", "c")]
    out = []
    r = vals.rng
    if total == 0:
        total = 1
    if total <= budget:
        combos = list(itertools.product(*int_sets)) if int_sets else [()]
    else:
        combos = [tuple(r.choice(s) for s in int_sets) for _ in range(budget)]
        # always keep every value of every class at least once
        for j, s in enumerate(int_sets):
            for v in s:
                c = [r.choice(x) for x in int_sets]
                c[j] = v
                combos.append(tuple(c))
    per = max(1, budget // max(1, len(combos))) if cont_pos else 1
    per = min(per, 24)
    for combo in combos:
        zval = None
        for i, v in zip(int_pos, combo):
            if (names[i] or "").lower() == "z":
                zval = v
        cols = []
        for i in cont_pos:
            k = kinds[i]
            if k == "d":
                cols.append(vals.doubles(names[i], fn, zval, per))
            elif k == "s":
                cols.append(vals.strings(names[i], fn, per))
            elif k == "crystal":
                cols.append(vals.crystals(per))
            elif k == "c":
                cols.append([(r.uniform(-1e6, 1e6), r.uniform(-1e6, 1e6)) for _ in range(per)] + [(0.0, 0.0), (3.0, 4.0)])
        n = max([len(c) for c in cols] or [1])
        # string columns carry hand-picked members at their end (deep nesting, long shared prefixes): they are never cut short
        n = min(n, max([per + 4] + [len(c) for c, i in zip(cols, cont_pos) if kinds[i] == "s"]))
        for j in range(n):
            args = [None] * len(kinds)
            for i, v in zip(int_pos, combo):
                args[i] = v
            for ci, i in enumerate(cont_pos):
                col = cols[ci]
                args[i] = col[j % len(col)] if j < len(col) or ci else col[j % len(col)]
            out.append((kinds, args))
    out += corner_pairs(vals, fn, kinds, names, zhint=26)
    return out


def corner_pairs(vals, fn, kinds, names, zhint=26):
    """pairwise covering block: a handful of corner values per argument (invalid, zero, boundary, typical; the Miller triple counts as one
    argument so that (0,0,0) meets every corner of the others), rows chosen greedily until every pair of corners of two different arguments
    occurs together at least once.  The main sweep zips its continuous columns, so two special values meet there only by chance."""
    r = vals.rng
    slots = []      # (positions, [value tuples])
    i = 0
    while i < len(kinds):
        p = (names[i] or "").lower()
        k = kinds[i]
        if k == "i" and p.endswith("_miller") and i + 2 < len(kinds) and (names[i + 2] or "").lower().endswith("_miller"):
            slots.append(((i, i + 1, i + 2), [(0, 0, 0), (1, 1, 1), (-2, 0, 6), (0, 0, 1)]))
            i += 3
            continue
        if k == "i":
            s = [v for v in vals.ints(names[i], fn, True) if v not in (INT_MIN, INT_MAX)]
            c = {s[0], s[-1], INT_MIN}
            if 0 in s:
                c.add(0)
            if p == "z":
                c |= {1, zhint, 82, 92, 99}
            if p == "line":
                c |= {0, 1, 2, 3, -1, -3, -30}        # the four group macros and a few single lines: met with every corner of Z
            if p == "shell":
                c |= {0, 1, 3, 4}
            c |= set(r.sample(s, min(len(s), 3)))
            slots.append(((i,), [(v,) for v in sorted(c)]))
        elif k == "d":
            corners = {"e": [-1.0, 0.0, 1e-300, 0.05, 8.0, 90.0, 1e300], "theta": [0.0, PI / 2, 2.5, -1.0], "phi": [0.0, PI / 2, 2.5], "q": [-1.0, 0.0, 0.5, 1e300],
                       "pz": [-1.0, 0.0, 0.5, 1e300], "density": [-1.0, 0.0, 2.5], "debye_factor": [-1.0, 0.0, 1.0, 0.5], "rel_angle": [0.0, 1.0, -1.0, 0.5]}
            key = "e" if p in ("e", "e0", "energy") else p
            vs = corners.get(key) or vals.doubles(names[i], fn, zhint, 3)[:3]
            slots.append(((i,), [(v,) for v in vs]))
        elif k == "s":
            col = vals.strings(names[i], fn, 6)
            good = [x for x in col if x][:2]
            slots.append(((i,), [(v,) for v in [None, ""] + good + [x for x in col if x and x not in good][-1:]]))
        elif k == "out":
            slots.append(((i,), [(0,), ("N",)]))       # an out parameter the caller does not want: NULL
        elif k in ("array", "outc"):
            slots.append(((i,), [(0,)]))
        elif k == "crystal":
            col = vals.crystals(3)
            slots.append(((i,), [(v,) for v in ["cNULL", col[0], col[-3], col[-2], col[-1]]]))
        else:
            return []
        i += 1
    if len(slots) < 2:
        return []
    need = set()
    for a in range(len(slots)):
        for b in range(a + 1, len(slots)):
            for x in range(len(slots[a][1])):
                for y in range(len(slots[b][1])):
                    need.add((a, x, b, y))
    rows = []
    while need and len(rows) < 400:
        best, bestc = None, -1
        seedpair = next(iter(need))
        for _ in range(25):
            row = [r.randrange(len(s[1])) for s in slots]
            row[seedpair[0]], row[seedpair[2]] = seedpair[1], seedpair[3]
            c = sum(1 for a in range(len(slots)) for b in range(a + 1, len(slots)) if (a, row[a], b, row[b]) in need)
            if c > bestc:
                best, bestc = row, c
        for a in range(len(slots)):
            for b in range(a + 1, len(slots)):
                need.discard((a, best[a], b, best[b]))
        rows.append(best)
    out = []
    for row in rows:
        args = [None] * len(kinds)
        for s, x in zip(slots, row):
            for pos, v in zip(s[0], s[1][x]):
                args[pos] = v
        out.append((kinds, args))
    return out


# -------------------------------------------------------------------------------------------------- generic C03 oracle
SENTINEL_NULL = ("s:NULL", "cd:NULL", "cn:NULL", "rn:NULL", "cs:NULL", "l:NULL", "arr:NULL")


def floats_in(result):
    """all floating point numbers embedded in a result encoding"""
    out = []
    for tok in result.replace(";", ",").replace(":", ",").replace("=", ",").split(","):
        if tok.startswith(("0x", "-0x", "inf", "-inf", "nan", "-nan")):
            try:
                out.append(float.fromhex(tok))
            except ValueError:
                out.append(float(tok.replace("-nan", "nan")))
    return out


def judge(fn, p, has_slot):
    """p = calls.parse(line).  -> list of (signature-suffix, expected, got)"""
    bad = []
    if "bad" in p:
        return [("harness", "a result line", p["bad"][:200])]
    res, err = p["result"], p["err"]
    kind = res.split(":", 1)[0]
    fl = floats_in(res)
    if err is None:
        if any(not math.isfinite(x) for x in fl):
            bad.append(("nonfinite", "finite result", res[:200]))
        if has_slot and res in SENTINEL_NULL:
            bad.append(("null-without-error", "object or error", res))
        if has_slot and is_positive(fn) and kind == "d" and fl and not (fl[0] > 0):
            bad.append(("nonpositive-without-error", "> 0 or error", res[:80]))
        if has_slot and fn in FAILURE_IS_ZERO and res.split(";")[0] == "i:0":
            bad.append(("failure-without-error", "non-zero status or an error", res[:80]))
    else:
        code, msg = err
        if kind == "d" and fl[:1] != [0.0]:
            bad.append(("value-with-error", "0.0", res[:80]))
        if kind == "i" and not res.startswith("i:0"):
            bad.append(("value-with-error", "0", res[:80]))
        if kind == "z" and any(x != 0.0 for x in fl[:2]):
            bad.append(("value-with-error", "{0,0}", res[:80]))
        if kind in ("s", "cd", "cn", "rn", "cs", "l", "arr") and res not in SENTINEL_NULL and res != "cd:unparsable":
            bad.append(("object-with-error", "NULL", res[:80]))
        if any(not math.isfinite(x) for x in fl):
            bad.append(("nonfinite-with-error", "sentinel", res[:120]))
        if not (0 <= code <= 5):
            bad.append(("error-code-range", "0..5", code))
        elif code != 1 and fn not in IO_OR_CAPACITY:
            bad.append(("error-code", "XRL_ERROR_INVALID_ARGUMENT", code))
        if len(msg) == 0:
            bad.append(("error-message", "non-empty message", msg[:80]))   # (a message may echo an unprintable offending character)
    if err is None and (";od=-0x1.84ap+9" in res or ";oi=-777" in res):
        bad.append(("out-not-written", "every requested output written on success", res[:120]))      # the interpreter's sentinel is still there
    if has_slot and not p.get("noslot_same", True):
        bad.append(("noslot-differs", "bit-identical result without an error slot", res[:80]))
    if has_slot and not p.get("preset_ok", True):
        bad.append(("preset-slot-touched", "pre-set error left untouched and same result", res[:80]))
    if p.get("stderr"):
        s = p["stderr"]
        if b"set over the top" in s:
            bad.append(("error-overwrite", "at most one error per call", s[:200]))
        elif fn not in NO_SLOT_API:
            bad.append(("stderr-output", "nothing on stderr", s[:200]))
    return bad
