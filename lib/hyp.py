"""Thin Hypothesis runner: one property function per relation; shrunk counterexample becomes a Stats violation.
The property function receives (st, **drawn) and returns None when the case holds or a tuple
(signature, case_dict, expected, got) when it does not."""
import hypothesis
from hypothesis import given, settings, seed, HealthCheck, Phase


class _Fail(Exception):
    pass


def run_property(st, name, strategies, func, max_examples, seed_value, classify=None):
    """strategies: dict name -> strategy.  Returns number of examples executed."""
    box = dict(n=0, last=None)

    @seed(seed_value)
    @settings(max_examples=max_examples, database=None, deadline=None, derandomize=False, report_multiple_bugs=False,
              suppress_health_check=list(HealthCheck), phases=[Phase.generate, Phase.shrink], print_blob=False)
    @given(**strategies)
    def prop(**kw):
        box["n"] += 1
        r = func(st, **kw)
        if r is not None:
            box["last"] = r
            raise _Fail(r[0])

    try:
        prop()
    except _Fail:
        sig, case, exp, got = box["last"]  # the last failing example Hypothesis replays is the shrunk one
        st.violation(sig, case, exp, got, detail="shrunk by Hypothesis; relation " + name)
    except getattr(hypothesis.errors, "Flaky", ()) as e:
        # the relation failed for an example and held when Hypothesis replayed the very same example: the functions under test answered the
        # same question differently within one process.  All generators are pure, so this is the library's doing.
        sig, case, exp, got = box["last"] if box["last"] else ("?", {}, None, None)
        st.violation("nondeterministic:" + name, dict(case, first_failure=sig), "the same outcome for the same arguments", got, detail=repr(e)[:300])
    except hypothesis.errors.HypothesisException as e:  # generator problem: infrastructure, not a verdict
        st.violation("infra:hypothesis:" + name, dict(error=repr(e)[:300]))
    return box["n"]
