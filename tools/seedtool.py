#!/usr/bin/env python3
"""seedtool.py verify <seed_dir> [--checks C10,C03] [--tier quick]
Confirms a seeded property-breaking change in a scratch copy of /repo (never in /repo itself):
  1. clean copy builds, test suite gives the baseline (33 pass / the 4 known failures), demo passes
  2. with patch.diff applied: builds, the same tests pass, demo fails
  3. optionally runs the listed checks with VERIF_REPO pointing at the patched copy and reports which raise VIOLATION
Writes <seed_dir>/verify.json.  The scratch copy is removed afterwards."""
import argparse, json, os, re, shutil, subprocess, sys, tempfile

VERIF = os.path.dirname(os.path.dirname(os.path.abspath(__file__)))
REPO = "/repo"
MOPTS = ["-Dpython-bindings=disabled", "-Dpython-numpy-bindings=disabled", "-Dfortran-bindings=disabled"]


def sh(cmd, cwd=None, env=None, timeout=3600):
    p = subprocess.run(cmd, cwd=cwd, env=env, stdout=subprocess.PIPE, stderr=subprocess.STDOUT, shell=isinstance(cmd, str), timeout=timeout)
    return p.returncode, p.stdout.decode("utf-8", "replace")


def suite(copy, bdir):
    if not os.path.isdir(bdir):
        rc, out = sh(["meson", "setup", bdir, copy] + MOPTS)
        if rc:
            return None, out[-2000:]
    rc, out = sh(["ninja", "-C", bdir])
    if rc:
        return None, out[-3000:]
    rc, out = sh(["meson", "test", "-C", bdir, "--no-rebuild"])
    ok = sorted(set(re.findall(r"^\s*\d+/\d+\s+(\S+)\s+OK", out, re.M)))
    return ok, out[-1500:]


def demo(seed, copy, bdir, work):
    # work on a private copy of the demonstration in which the agent's worktree path is replaced by the scratch copy
    wdir = os.path.join(work, "demo_run")
    shutil.rmtree(wdir, ignore_errors=True)
    shutil.copytree(seed, wdir, symlinks=True)
    for f in os.listdir(wdir):
        fp = os.path.join(wdir, f)
        if os.path.isfile(fp) and not os.path.islink(fp) and f.split(".")[-1] in ("c", "cpp", "sh", "java", "py"):
            t = open(fp, errors="replace").read()
            t2 = re.sub(r"/tmp/wt_C\d\d", copy, t)
            if t2 != t:
                open(fp, "w").write(t2)
    seed = wdir
    src = os.path.join(seed, "demo.c")
    shd = os.path.join(seed, "demo.sh")
    exe = os.path.join(work, "demo")
    if os.path.exists(src) and not os.path.exists(shd):
        rc, out = sh(["gcc", "-I%s/include" % copy, "-I" + bdir, src, "-o", exe, "-L%s/src" % bdir, "-lxrl", "-lm", "-lpthread", "-ldl",
                      "-Wl,-rpath,%s/src" % bdir], cwd=bdir)
        if rc:
            return None, "demo compile failed: " + out[-1500:]
    if os.path.exists(shd):
        env = dict(os.environ, WT=copy, BUILD=bdir, DEMO=exe)
        rc, out = sh(["sh", os.path.join(wdir, "demo.sh"), copy, os.path.basename(bdir)], cwd=wdir, env=env, timeout=900)
    else:
        rc, out = sh([exe], cwd=bdir, timeout=600)
    return rc, out[-1500:]


def main():
    ap = argparse.ArgumentParser()
    ap.add_argument("cmd")
    ap.add_argument("seed")
    ap.add_argument("--checks", default="")
    ap.add_argument("--tier", default="quick")
    ap.add_argument("--skip-confirm", action="store_true")
    ap.add_argument("--no-write", action="store_true", help="do not rewrite verify.json (sensitivity sweeps)")
    a = ap.parse_args()
    seed = os.path.abspath(a.seed)
    work = tempfile.mkdtemp(prefix="xrlv.seed.", dir="/var/tmp")
    res = dict(seed=seed)
    try:
        copy = os.path.join(work, "src")
        sh(["rsync", "-a", "--exclude", "/_build", "--exclude", "/.git", REPO + "/", copy + "/"])
        bdir = os.path.join(copy, "_b")
        if os.path.exists(os.path.join(seed, "NEEDS_KISSEL")):
            # the change only manifests with the Kissel table present: regenerate it in the scratch copy (configuration B)
            sh([sys.executable.replace("python3", "python3") if False else "python3-vt", os.path.join(VERIF, "tools", "regen_kissel.py"), copy,
                os.path.join(copy, "data", "kissel_pe.dat")])
            res["kissel_regenerated"] = True
        if not a.skip_confirm:
            ok0, log = suite(copy, bdir)
            res["clean_tests_ok"] = len(ok0) if ok0 is not None else None
            rc0, out0 = demo(seed, copy, bdir, work)
            res["clean_demo_rc"] = rc0
            res["clean_demo_tail"] = out0[-400:]
        sh(["git", "init", "-q"], cwd=copy)
        rc, out = sh(["git", "apply", "--whitespace=nowarn", os.path.join(seed, "patch.diff")], cwd=copy)
        if rc:
            rc, out = sh(["patch", "-p1", "-i", os.path.join(seed, "patch.diff")], cwd=copy)
        res["apply_rc"] = rc
        if rc:
            res["apply_out"] = out[-800:]
            print(json.dumps(res, indent=1))
            return 2
        if re.search(r"^\+\+\+ b/data/", open(os.path.join(seed, "patch.diff")).read(), re.M):
            # the generated tables do not list every data file as a build dependency: a data change needs a build from scratch
            shutil.rmtree(bdir, ignore_errors=True)
            res["rebuilt_from_scratch"] = True
        if not a.skip_confirm:
            ok1, log = suite(copy, bdir)
            res["patched_builds"] = ok1 is not None
            res["patched_tests_ok"] = len(ok1) if ok1 is not None else None
            res["same_tests_pass"] = ok1 is not None and set(ok0) <= set(ok1)
            if ok1 is None:
                res["build_log"] = log
            rc1, out1 = demo(seed, copy, bdir, work)
            res["patched_demo_rc"] = rc1
            res["patched_demo_tail"] = out1[-600:]
            res["confirmed"] = bool(res["same_tests_pass"] and rc0 == 0 and rc1 not in (0, None))
        shutil.rmtree(bdir, ignore_errors=True)
        det = {}
        for c in [c for c in a.checks.split(",") if c]:
            env = dict(os.environ, VERIF_REPO=copy, VERIF_OUT=os.path.join(work, "out"))
            rc, out = sh([os.path.join(VERIF, "bin", "check"), c, "--tier", a.tier], cwd=VERIF, env=env, timeout=7200)
            sigs = re.findall(r"signature=(\S+)", out)
            det[c] = dict(rc=rc, violation=("VIOLATION property=" in out), signatures=sigs[:8], tail=out[-500:] if rc not in (0, 1) else "")
        res["checks"] = det
    finally:
        shutil.rmtree(work, ignore_errors=True)
    if not a.no_write:
        with open(os.path.join(seed, "verify.json"), "w") as f:
            json.dump(res, f, indent=1)
    print(json.dumps(res, indent=1))
    return 0


if __name__ == "__main__":
    sys.exit(main())
