#!/usr/bin/env python3
"""meta.json for every seeded change from seeded/needs.json (what the change needs in order to manifest) and the verify.json that
tools/seedtool.py wrote; also prints the detection table used in DESIGN.md."""
import json, os, sys
VERIF = os.path.dirname(os.path.dirname(os.path.abspath(__file__)))
S = os.path.join(VERIF, "seeded")
needs = json.load(open(os.path.join(S, "needs.json")))
rows = []
for sid in sorted(needs):
    d = os.path.join(S, sid)
    vf = os.path.join(d, "verify.json")
    if not os.path.exists(vf):
        continue
    v = json.load(open(vf))
    meta = dict(id=sid, breaks_property=sid.split("-")[0], needs_to_manifest=needs[sid],
                source="independent sub-agent given only the property text and a scratch worktree",
                confirmation=dict(tool="tools/seedtool.py verify (scratch copy of /repo; meson build; meson test; demonstration)",
                                  clean_tests_ok=v.get("clean_tests_ok"), patched_tests_ok=v.get("patched_tests_ok"), same_tests_pass=v.get("same_tests_pass"),
                                  demo_exit_clean=v.get("clean_demo_rc"), demo_exit_patched=v.get("patched_demo_rc"), confirmed=v.get("confirmed"),
                                  needs_kissel_regenerated=bool(v.get("kissel_regenerated")), rebuilt_from_scratch=bool(v.get("rebuilt_from_scratch"))),
                checks_run={c: dict(violation=r.get("violation"), signatures=r.get("signatures", [])) for c, r in v.get("checks", {}).items()})
    prev = os.path.join(d, "meta.json")
    if os.path.exists(prev):
        # keep the record of earlier runs with other checks (a seed is often run against its own property's check and a neighbour)
        old = json.load(open(prev)).get("checks_run", {})
        for c, r in old.items():
            meta["checks_run"].setdefault(c, r)
    with open(prev, "w") as f:
        json.dump(meta, f, indent=1)
    own = meta["checks_run"].get(meta["breaks_property"], {})
    others = [c for c, r in meta["checks_run"].items() if c != meta["breaks_property"] and r.get("violation")]
    rows.append("| %s | %s | %s | %s | %s |" % (sid, "yes" if meta["confirmation"]["confirmed"] else "NO", "yes" if own.get("violation") else "no",
                                               ", ".join(own.get("signatures", [])[:2]) or "-", ", ".join(others) or "-"))
if "--design" in sys.argv:
    # the 4-column table of DESIGN.md section 0'.4, written between the SEEDTABLE markers
    out = ["| seed | needs | caught by (first signatures) | run against the change and stayed green |", "|---|---|---|---|"]
    for sid in sorted(needs):
        mf = os.path.join(S, sid, "meta.json")
        if not os.path.exists(mf):
            continue
        m = json.load(open(mf))
        own = m["breaks_property"]
        order = sorted(m["checks_run"], key=lambda c: (c != own, c))
        caught = ["%s (%s)" % (c, ", ".join(m["checks_run"][c].get("signatures", [])[:2])) for c in order if m["checks_run"][c].get("violation")]
        missed = [c for c in order if not m["checks_run"][c].get("violation")]
        ported = " (ported)" if os.path.exists(os.path.join(S, sid, "PORTED.md")) else ""
        out.append("| %s | %s%s%s | %s | %s |" % (sid, needs[sid][:230], ported, " (needs configuration B)" if m["confirmation"].get("needs_kissel_regenerated") else "",
                                              ", ".join(caught) or "**nothing**", ", ".join(missed) or "-"))
    dp = os.path.join(VERIF, "DESIGN.md")
    d = open(dp).read()
    a, b = d.index("<!-- SEEDTABLE BEGIN -->"), d.index("<!-- SEEDTABLE END -->")
    d = d[:a] + "<!-- SEEDTABLE BEGIN -->\n" + "\n".join(out) + "\n" + d[b:]
    open(dp, "w").write(d)
    print("DESIGN.md table rewritten: %d rows" % (len(out) - 2))
if "--table" in sys.argv:
    print("| seed | confirmed | caught by its own property's check | first signatures | also caught by |")
    print("|---|---|---|---|---|")
    print("\n".join(rows))
