#!/usr/bin/env python3
"""Regenerate data/kissel_pe.dat from data/kissel/0* the way data/kissel/kissel.pro does.

usage: regen_kissel.py <repo-root> <output-file>

Port of the IDL procedure (configuration B of the verification design):
  * TOTAL block: 7 lines are skipped (block line, 5 header lines and -- as the IDL script does -- the
    first data row), then (E, cs) rows up to ' *** END OF DATA ***'; ln() of both columns.
  * second derivative = DERIV(x, DERIV(x, y)) (IDL 3-point Lagrange), entries outside [-1,1] zeroed.
  * CONFIGURATION block: occupation (column 5) and binding energy (column 6) per (n, kappa), as FLOAT.
  * one block per occupied sub-shell: 15 header lines skipped after the '*BLOCK:<shell>' line.
Numbers are written with 8 (double) / 6 (float) significant digits like IDL's free format.
"""
import sys, os, glob, math
import numpy as np

SHELLS = ["K", "L1", "L2", "L3", "M1", "M2", "M3", "M4", "M5", "N1", "N2", "N3", "N4", "N5", "N6", "N7",
          "O1", "O2", "O3", "O4", "O5", "O6", "O7", "P1", "P2", "P3", "P4", "P5", "Q1", "Q2", "Q3"]
LETTER = {1: "K", 2: "L", 3: "M", 4: "N", 5: "O", 6: "P", 7: "Q"}
KAPPA_IDX = {-1: 1, 1: 2, -2: 3, 2: 4, -3: 5, 3: 6, -4: 7}
END = " *** END OF DATA ***"


def deriv(x, y):
    n = len(x)
    x = np.asarray(x, dtype=np.float64)
    y = np.asarray(y, dtype=np.float64)
    x12 = x - np.roll(x, -1)
    x01 = np.roll(x, 1) - x
    x02 = np.roll(x, 1) - np.roll(x, -1)
    with np.errstate(all="ignore"):
        d = np.roll(y, 1) * (x12 / (x01 * x02)) + y * (1.0 / x12 - 1.0 / x01) - np.roll(y, -1) * (x01 / (x02 * x12))
    d[0] = y[0] * (x01[1] + x02[1]) / (x01[1] * x02[1]) - y[1] * x02[1] / (x01[1] * x12[1]) + y[2] * x01[1] / (x02[1] * x12[1])
    n2 = n - 2
    d[n - 1] = -y[n - 3] * x12[n2] / (x01[n2] * x02[n2]) + y[n - 2] * x02[n2] / (x01[n2] * x12[n2]) - y[n - 1] * (x02[n2] + x12[n2]) / (x02[n2] * x12[n2])
    return d


def second(x, y):
    d2 = deriv(x, deriv(x, y))
    bad = ~((d2 >= -1.0) & (d2 <= 1.0))  # also zeroes NaN/Inf (duplicated abscissae)
    d2[bad] = 0.0
    return d2


def read_rows(lines, i):
    xs, ys = [], []
    while True:
        line = lines[i]
        i += 1
        if line.startswith(END):
            break
        v = line.split()
        xs.append(math.log(float(v[0])))
        ys.append(math.log(float(v[1])))
    return xs, ys, i


def fmt_d(v):
    return "%16.8g" % v


def fmt_f(v):
    return "%13.6g" % float(np.float32(v))


def convert(path, out):
    lines = open(path).read().split("\n")
    i = 0
    assert lines[0].startswith("*BLOCK:TOTAL"), path
    i = 7
    x, y, i = read_rows(lines, i)
    y2 = second(x, y)
    out.write("%12d\n" % len(x))
    for a, b, c in zip(x, y, y2):
        out.write(fmt_d(a) + fmt_d(b) + fmt_d(c) + "\n")
    while not lines[i].startswith("*BLOCK:CONFIGURATION"):
        i += 1
    i += 1 + 12
    occ = {s: 0.0 for s in SHELLS}
    be = {s: 0.0 for s in SHELLS}
    while True:
        line = lines[i]
        i += 1
        if len(line.strip()) == 0:
            continue
        if line.startswith(END):
            break
        v = line.split()
        n, kappa = int(float(v[0])), int(float(v[1]))
        name = "K" if n == 1 else LETTER[n] + str(KAPPA_IDX[kappa])
        occ[name] = float(np.float32(float(v[4])))
        be[name] = float(np.float32(float(v[5])))
    for s in SHELLS:
        out.write(fmt_f(occ[s]) + "\n")
    for s in SHELLS:
        if occ[s] == 0.0:
            out.write("%12d\n" % 0)
            continue
        search = "*BLOCK:" + s
        while not lines[i].startswith(search):
            i += 1
        i += 1 + 15
        x, y, i = read_rows(lines, i)
        y2 = second(x, y)
        out.write("%12d\n" % len(x))
        out.write(fmt_f(be[s]) + "\n")
        for a, b, c in zip(x, y, y2):
            out.write(fmt_d(a) + fmt_d(b) + fmt_d(c) + "\n")


def main():
    root, outp = sys.argv[1], sys.argv[2]
    files = sorted(glob.glob(os.path.join(root, "data", "kissel", "0*")))
    if not files:
        sys.stderr.write("no data/kissel/0* files\n")
        return 2
    with open(outp, "w") as out:
        for f in files:
            convert(f, out)
    return 0


if __name__ == "__main__":
    sys.exit(main())
