#!/bin/sh
# re-runs every seeded change against the check of its own property with the current machinery (no re-confirmation of the change itself)
# usage: tools/seedsweep.sh [streams]   -> seeded/SWEEP.txt : one line per seed "id caught|MISSED signatures"
cd "$(dirname "$0")/.."
N=${1:-3}
OUT=$(mktemp -d /var/tmp/xrlv.sweep.XXXXXX)
ls -d seeded/C*-v* | sort > $OUT/all
split -n l/$N $OUT/all $OUT/part.
for p in $OUT/part.*; do
  ( while read d; do
      id=$(basename $d); c=${id%%-*}
      python3 tools/seedtool.py verify $d --checks $c --skip-confirm --no-write 2>/dev/null | python3 -c "
import sys,json
t=sys.stdin.read()
try:
    v=json.loads(t[t.index('{'):]); c=v['checks']['$c']; print('$id', 'caught' if c['violation'] else 'MISSED', ' '.join(c['signatures'][:3]))
except Exception as e:
    print('$id', 'ERROR', str(e)[:80])
" >> $p.out
    done < $p ) &
done
wait
cat $OUT/part.*.out | sort > seeded/SWEEP.txt
rm -rf $OUT
grep -c caught seeded/SWEEP.txt
