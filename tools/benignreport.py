#!/usr/bin/env python3
"""benign/RESULTS.md from benign/*/result.txt (written by tools/benigntool.sh) and the first heading of each README"""
import glob, os, re
VERIF = os.path.dirname(os.path.dirname(os.path.abspath(__file__)))
rows = []
for d in sorted(glob.glob(os.path.join(VERIF, "benign", "*-v*"))):
    rid = os.path.basename(d)
    res = os.path.join(d, "result.txt")
    if not os.path.exists(res):
        continue
    lines = [l for l in open(res).read().split("\n") if re.match(r"C\d\d rc=", l)]
    bad = [l.split()[0] for l in lines if " rc=0 " not in l]
    title = ""
    rd = os.path.join(d, "README.md")
    if os.path.exists(rd):
        for l in open(rd):
            if l.strip():
                title = l.strip().lstrip("# ").strip()[:150]
                break
    hist = os.path.join(d, "HISTORY.md")
    note = open(hist).read().strip().replace("\n", " ") if os.path.exists(hist) else ""
    rows.append("| %s | %s | %d / %d | %s | %s |" % (rid, title, len(lines) - len(bad), len(lines), ", ".join(bad) or "-", note or "-"))
with open(os.path.join(VERIF, "benign", "RESULTS.md"), "w") as f:
    f.write("# Behaviour-preserving changes: every claimed check run against each (tools/benigntool.sh, quick tier)\n\n"
            "A check that is not green here is a false alarm of the machinery, to be corrected in the machinery (see DESIGN.md 0'.45).\n"
            "`HISTORY.md` in a directory records an alarm that an earlier version of the checks raised on that change and what was corrected.\n\n"
            "| change | what it does | checks green | not green | history |\n|---|---|---|---|---|\n" + "\n".join(rows) + "\n")
print(len(rows), "rows")
