#!/usr/bin/env python3
"""Regenerates /verif/MANIFEST.json from the table below (single source of truth for what is claimed)."""
import json, os

VERIF = os.path.dirname(os.path.dirname(os.path.abspath(__file__)))
ALL = ["C%02d" % i for i in range(1, 21)]

# id -> (technique, level text, level note, design ref)
CLAIMED = {
    "C01": ("exhaustive enumeration of the discrete argument space against independently parsed data files and header macros (differential oracle)",
            "Every (accessor, Z, macro) cell in and around the legal range is evaluated in both data configurations and compared with == "
            "against an independent parse of data/*.dat and of the #defines; the space is finite so nothing is sampled.",
            "trusts glibc strtod/printf, meson build, the harness' own 150-line parser; group line macros are left to C10, Auger to C11",
            "DESIGN.md 2/C01"),
    "C02": ("structured enumeration of every knot interval + seeded interior fractions + end-straddling points + seeded interleaved call sequences, each call with and without an error slot, against an independent cubic-spline evaluation (differential oracle)",
            "Every interval of every interpolation table (1.7M evaluations incl. Compton profiles per shell and, in configuration B, the Kissel "
            "sub-shell tables with their edge/extension region) is compared to 1e-12 with a textbook spline over independently parsed knots; "
            "outside the range an error is required.",
            "same libm as the library (log/exp), knots rounded to the 11 digits the build keeps; the one non-monotone abscissa step of the shipped data "
            "(CS_Photo Z=96) is evaluated by the same textbook bisection; the 1e-7 guard band above the last knot accepts both outcomes",
            "DESIGN.md 2/C02"),
    "C03": ("generated API sweep: every exported function x exhaustive discrete classes x structured/seeded continuous, string and crystal arguments, each call with a fresh / absent / pre-set error slot, generic contract oracle",
            "A universal call interpreter generated from the header prototypes executes ~350k (quick) calls under ASan+UBSan in both data "
            "configurations; the oracle requires: no error => finite, non-NULL, strictly positive where physical; error => sentinel value, valid code, "
            "printable message; identical result without a slot; pre-set slot untouched; no overwrite diagnostic on stderr.",
            "argument classes come from C type + parameter name (unclassifiable = build failure of the check); NaN/Inf arguments outside the domain",
            "DESIGN.md 2/C03"),
    "C04": ("sanitizer-instrumented generated testing: API sweep with per-call heap balance + LeakSanitizer, rapidcheck call histories with an object pool, libFuzzer targets with in-target oracles",
            "The C03 sweep runs with an exact per-call heap balance (confirmed by LeakSanitizer), rapidcheck generates histories over the allocating "
            "APIs (objects pooled, scribbled, released in generated order, arrays grown, files read) ending in full release, and libFuzzer drives the "
            "formula parser, the crystal file reader and - through a byte decoder in front of the universal call interpreter - every exported function "
            "with semantic + heap + descriptor oracles; any ASan/UBSan/LSan report is a violation.",
            "allocation-failure injection not done; libFuzzer campaigns are bounded by -runs; sanitizer runtimes trusted",
            "DESIGN.md 2/C04"),
    "C05": ("structured enumeration (all Z, photo-table knots, edges, range ends, angle grids) + seeded draws; metamorphic/defining identities evaluated from public components",
            "Each of the ~40 aggregate / unit-variant entry points is compared at 1e-13 with its defining identity built from the public component "
            "functions and header constants, in both data configurations, and must fail exactly when a required part fails.",
            "components themselves are decided by C01/C02/C12; identities share the library's own components so a common-mode error in a component is invisible here",
            "DESIGN.md 2/C05"),
    "C06": ("Hypothesis property-based testing: grammar-generated formulas / NIST names / invalid names x energies x angles x densities against the mixture rule evaluated from public elemental functions (reference model oracle)",
            "All 21 _CP functions and the 3 refractive-index entry points are compared (1e-13; delta and beta through header-derived constants) with the "
            "mass-fraction mixture rule on Hypothesis-generated compounds in both data configurations, including the full failure matrix.",
            "composition as returned by the library's parser/NIST lookup is taken as given (C07/C15); elemental functions by C02/C05",
            "DESIGN.md 2/C06"),
    "C07": ("exhaustive singles/pairs + Hypothesis grammar generation with algebraic rewrites (metamorphic) + mutation-generated malformed strings with a three-way reference recogniser + coverage-guided differential fuzzing (libFuzzer) against a C++ port of that recogniser",
            "The parser result is compared (1e-12) with an exact Fraction expansion for every single symbol, all 107^2 pairs and Hypothesis-generated "
            "formulas, must be invariant under term permutation and group expansion, must reject the listed malformed classes, must leave the "
            "numeric locale untouched, and add_compound_data must give the ascending weighted union.",
            "strings that are neither in the strict grammar nor in a listed rejection class are UNSPECIFIED (only internal consistency is required)",
            "DESIGN.md 2/C07"),
    "C08": ("structured enumeration (all Z x 9 shells x all line macros x 5 variants x 2 units x edge-bracketing energies) + generated helper arguments against a name-derived reference recursion (reference model oracle)",
            "Every CS(b)_FluorShell/Line_Kissel* entry point and the 32 exported vacancy helpers are compared (1e-9) with a cascade recursion "
            "built only from public primitives, Auger terms chosen by parsing transition names; configuration B gives values, in A every call must fail.",
            "primitives trusted (C01/C02/C11); one %.10E rounding in the precomputed transfer constants",
            "DESIGN.md 2/C08"),
    "C09": ("structured enumeration (all Z x shells x all line macros x edge-bracketing energies) + seeded draws against an independent re-implementation of the jump-ratio model (reference model oracle)",
            "CS(b)_FluorShell/Line for every Z, shell and line macro at energies on both sides of every K/L edge are compared at 1e-13 with "
            "photo x share x yield x rate recomputed from the public primitives; errors required below the edge / for unavailable inputs.",
            "primitives trusted (C01/C02); exact zero share accepts 0.0 with or without error; energies exactly on an edge are not generated",
            "DESIGN.md 2/C09"),
    "C12": ("Hypothesis property-based testing over (E, theta, phi) with metamorphic/relational oracles (quadrature, azimuthal average, limits, symmetry, call-order independence) + full special-value grid",
            "Nine relations between the public closed-form functions are checked on Hypothesis-generated energies (1e-6..1e6 keV, log-uniform) and "
            "angles (+-4pi) and on the full grid of special values; failures are shrunk to a minimal (E, theta, phi).",
            "Gauss-Legendre quadrature self-checked by node doubling (unconverged = inconclusive); libm shared with the library",
            "DESIGN.md 2/C12"),
    "C10": ("exhaustive enumeration Z x group macro; reference average recomputed from member lines selected by name (differential oracle)",
            "All Z x {KA,KB,LA,LB, 7 doublets, KO, KP} energies and {KA,KB,LA} rates plus all 39 Siegbahn aliases are compared (1e-13) with the "
            "weighted/plain mean over members chosen by parsing line names; finite space, nothing sampled.",
            "member single-line values are trusted here (decided by C01), L-beta weights are the library's CS_FluorLine (decided by C09)",
            "DESIGN.md 2/C10"),
    "C11": ("exhaustive enumeration Z x shell x Auger macro against a name-derived reference over independently parsed raw tables",
            "All 9 shells and 996 Auger macros (and out-of-range values) for every Z are compared (1e-10) with 1-omega-sum(CK) and "
            "raw/(TOTAL - CK-type raw) computed from an own parse of the data files; Coster-Kronig membership comes from the macro names.",
            "trusts the harness parser and name grammar; tolerance covers the single %.10E print of the derived tables",
            "DESIGN.md 2/C11"),
    "C13": ("Hypothesis property-based testing over generated triclinic cells + structured enumeration over the 38 built-in crystals, with metamorphic and differential oracles",
            "d-spacing symmetries, reciprocal-metric agreement, Bragg's law (or error), explicit structure-factor sum for 7 flag combinations, additivity, "
            "Friedel, F(000), out-parameter variants and the error contract are checked on all built-ins and on Hypothesis-generated valid cells.",
            "atomic factors come from the library's own Atomic_Factors (FF_Rayl/Fi/Fii decided by C02); built-in volumes compared at 1e-6 (%f literals)",
            "DESIGN.md 2/C13"),
    "C14": ("Hypothesis stateful (rule-based state machine) testing against a model dictionary, run on a plain and on an ASan/UBSan build; built-in collection filled to capacity in a forked child",
            "Generated histories of create/add/duplicate/NULL/get/list/copy-mutate-free/read-file (well-formed, 6 corruption kinds, duplicates, "
            "missing) over arrays of initial capacity 0..12 are compared with a model after every step (names, order, cells, atoms, recomputed "
            "volume, rejected operations leave no trace); failures shrink to a minimal history; sanitizer aborts keep the step log as replay.",
            "file lines stay below the reader's 99-character line limit (numbers with 6 decimals); leak freedom of ArrayFree is C04's",
            "DESIGN.md 2/C14"),
    "C15": ("exhaustive enumeration of all catalogue entries x addressing modes (differential: by-name vs by-index vs list vs header macros) + mutate-copy-refetch histories",
            "Every element, NIST compound, radionuclide and crystal is fetched in every documented way (incl. every index macro lexed from the headers "
            "and out-of-range indices), compared field by field, checked for well-formedness, and copies are scribbled over and freed in all orders.",
            "IUPAC symbol table embedded in the harness; macro-name normalisation rule derived from the tree (180/180 match)",
            "DESIGN.md 2/C15"),
    "C16": ("generated call histories (seeded, with bursts of related calls and switch sweeps) executed in-process vs each step alone in a freshly forked process (differential); the whole argument sweep of every function as one history in two orders (metamorphic: order independence); invariants over every history: data-segment checksum, locale, cwd, streams, kept error objects",
            "Every step of every generated history must return the bit-identical encoded result it returns in a process that never called the "
            "library before; an FNV hash over all data/bss/rodata sections contributed by libxrl.a (taken from the link map, ~16 MB) must be equal "
            "before and after, as must locale strings, working directory, stdout/stderr (deprecation lines excepted) and every error object "
            "obtained on the way.",
            "insertions into the built-in crystal collection are exempt by the property and not generated; reference process = child forked from a pristine parent",
            "DESIGN.md 2/C16"),
    "C17": ("generated thread mixes under ThreadSanitizer (happens-before race detection) with a serial-equivalence oracle and a link-level setlocale observer",
            "8/12/16 threads execute generated call lists (incl. failing, parsing, allocating and identical simultaneous queries, thread-private crystal "
            "collections) and 4 threads execute the full argument sweep of every function in lockstep, behind a barrier on "
            "a TSan build under several seeded yield patterns: no TSan report, every call's result identical to the serial run, no locale change "
            "while workers are live.",
            "TSan cannot see inside uninstrumented libc (only setlocale is observed separately); liveness not addressed",
            "DESIGN.md 2/C17"),
    "C18": ("generated differential testing: a dispatch table calling every xrlpp wrapper is generated from the C++ header and run side by side with the C interpreter over the C03 argument sweep (ASan+UBSan+LSan)",
            "Every _XRL_FUNCTION instantiation (both string call forms) and every hand-written wrapper / class is executed on the same generated "
            "argument tuples as the C function: values and object fields bit-identical, exception type by error code, what() == C message, heap "
            "balanced per call, Crystal::Struct copy-constructed with the original destroyed first; unwrapped C functions of the wrapped families "
            "and wrappers that do not compile are violations.",
            "NULL strings / NULL crystals are not expressible through the wrappers; run on the Kissel-regenerated configuration so both outcomes occur",
            "DESIGN.md 2/C18"),
    "C19": ("generated differential testing: one argument stream (the C03 sweep) executed by the C interpreter and by a Java reflection harness over the Java sources compiled offline, both data configurations",
            "For every function that exists as C prototype and as public static Java method the same generated argument tuples are executed on both "
            "sides: same outcome class (value vs exception) and values within 1e-9 (crystal-derived quantities 2e-6: the C built-in crystals are "
            "single precision); objects compared field by field. The Java data file is dumped from the same data directory by pr_data_java.c.",
            "arguments within 1e-6 of an absorption edge / table end are not compared (Java holds full-precision tables, C the %.10E text, so the "
            "side of a discontinuity is round-off of the build); exception type/message not judged; javac against a stub of commons-math Complex",
            "DESIGN.md 2/C19"),
    "C20": ("exhaustive differential enumeration: per-language lexers (Fortran, Pascal, Cython, Java, IDL, C++, SWIG) vs a C header lexer for ~1500 constants x 7 files and all prototypes; exported symbols via nm; version strings",
            "Every constant, macro family member, wrapped prototype (name, arity, argument kinds), exported symbol and version string is compared; "
            "the space is finite and enumerated completely (22k comparisons). Lexers were validated by 72 single-token mutations of the binding files.",
            "bodies of bindings cannot be executed here (no Fortran/Pascal/Cython/IDL tool chains): declarations only; 7 Pascal declarations that lack "
            "the error argument are recorded as known findings",
            "DESIGN.md 2/C20"),
}

NOT_YET = "check not built yet in this round (see DESIGN.md section 2 for its design)"


SHADOW = {"C01", "C02", "C05", "C06", "C07", "C08", "C09", "C10", "C11", "C12", "C13", "C15"}


def main():
    checks = []
    for pid in ALL:
        if pid not in CLAIMED:
            continue
        tech, text, note, ref = CLAIMED[pid]
        if pid in SHADOW:
            tech += "; every worker then replays a sample of its own queries in shuffled order, twice in a row, without an error slot, with a stale errno and next to sibling questions (one integer argument replaced by -a-1, a+-1, -a) (metamorphic: a pure function answers the same)"
        checks.append(dict(
            property_id=pid,
            quick_cmd="bin/check %s --tier quick" % pid,
            thorough_cmd="bin/check %s --tier thorough" % pid,
            evidence_file="/verif/evidence/%s.json" % pid,
            replay_cmd_template="bin/check %s --replay {path}" % pid,
            engine="bin/check",
            level_claimed=dict(category="exploration", text=text, design_ref=ref),
            level_note=note,
            technique=tech))
    man = dict(
        version=1,
        setup_cmd="bin/setup.sh",
        hooks=dict(guard="XRAYLIB_VERIF", enable="no source hooks are needed: harnesses link the freshly built library and observe it from outside",
                   baseline_off_cmd="bin/baseline_off.sh", source_commits=[], add_only=True),
        engines=[dict(name="bin/check", path="/verif/bin/check", serves_properties=sorted(CLAIMED),
                      kind_free_text="python driver: scratch meson build of /repo (plain/ASan/TSan, data configurations A and B), "
                                     "generated/enumerated cases via ctypes + Hypothesis, rapidcheck and libFuzzer harnesses, evidence + replay files")],
        checks=checks,
        notes="Technique family: property-based testing and fuzzing. known_findings.json lists genuine defects that are recorded rather than repaired.",
        not_applicable=[dict(property_id=p, reason=NOT_YET) for p in ALL if p not in CLAIMED],
    )
    with open(os.path.join(VERIF, "MANIFEST.json"), "w") as f:
        json.dump(man, f, indent=1)
    print("MANIFEST.json: %d checks, %d not claimed" % (len(checks), len(man["not_applicable"])))


if __name__ == "__main__":
    main()
