#!/bin/sh
# runs the quick (or $1) tier of every claimed check (or of the checks named after the tier) and prints one line per check
cd "$(dirname "$0")/.."
TIER=${1:-quick}
[ $# -gt 0 ] && shift
for id in ${@:-$(python3 -c "import json;print(' '.join(c['property_id'] for c in json.load(open('MANIFEST.json'))['checks']))")}; do
  s=$(date +%s)
  out=$(bin/check $id --tier $TIER 2>&1); rc=$?
  e=$(date +%s)
  echo "$id rc=$rc $(($e-$s))s $(echo "$out" | grep -c '^VIOLATION') violations, $(echo "$out" | grep -c '^KNOWN-FINDING') known; $(echo "$out" | tail -1 | cut -c1-120)"
done
