#!/bin/sh
# usage: tools/benigntool.sh <benign/<id> directory holding patch.diff[.gz]> [tier]
# applies a behaviour-preserving change to a scratch copy of /repo and runs every claimed check against it (VERIF_REPO / VERIF_OUT):
# every check must stay green.  The scratch copy and the output directory are removed at the end; the one-line-per-check result is kept.
cd "$(dirname "$0")/.."
D=$(cd "$1" && pwd); TIER=${2:-quick}; V=$(pwd)
W=$(mktemp -d /var/tmp/xrlv.benign.XXXXXX)
rsync -a --exclude /.git --exclude /_build "${VERIF_REPO_BASE:-/repo}/" "$W/src/"
if [ -f "$D/prepare.sh" ]; then
  # a change that is produced rather than stored (e.g. a regenerated data file): the script runs in the scratch copy
  ( cd "$W/src" && sh "$D/prepare.sh" "$V" ) || { echo "prepare.sh failed" > "$D/result.txt"; rm -rf "$W"; exit 2; }
fi
if [ -f "$D/patch.diff.gz" ] || [ -f "$D/patch.diff" ]; then
if [ -f "$D/patch.diff.gz" ]; then gunzip -c "$D/patch.diff.gz" > "$W/patch.diff"; else cp "$D/patch.diff" "$W/patch.diff"; fi
( cd "$W/src" && git init -q && git apply --whitespace=nowarn "$W/patch.diff" ) || ( cd "$W/src" && patch -p1 -s < "$W/patch.diff" ) || { echo "patch does not apply" > "$D/result.txt"; rm -rf "$W"; exit 2; }
fi
rm -rf "$W/src/.git"
# the checks run from a snapshot of the committed /verif (so that work in progress in the live directory cannot leak into the result)
mkdir -p "$W/verif" && git archive HEAD | tar -x -C "$W/verif"
git rev-parse --short HEAD > "$D/verif_commit.txt"
( cd "$W/verif" && VERIF_REPO="$W/src" VERIF_OUT="$W/out" tools/runall.sh "$TIER" ) > "$D/result.txt" 2>&1
# keep the details of anything that was reported
for f in "$W"/out/replays/*/*.json; do [ -f "$f" ] && { mkdir -p "$D/alarms"; cp "$f" "$D/alarms/$(basename $(dirname $f))-$(basename $f)"; }; done
rm -rf "$W"
grep -c "rc=0" "$D/result.txt"
