// libFuzzer target: any bytes as crystal file content, read into a user array of capacity 0..12, followed by list / lookup / free.
// Oracle inside: a rejected file leaves the array as it was; after an accepted file the list is sorted without duplicates, every entry can be
// fetched and carries the recomputed volume; nothing is leaked, no descriptor stays open.
#include <cstdint>
#include <cstdio>
#include <cstdlib>
#include <cstring>
#include <cmath>
#include <string>
#include <vector>
#include <unistd.h>
#include <dirent.h>
extern "C" {
#include "xraylib.h"
}
extern "C" size_t __sanitizer_get_current_allocated_bytes();
extern "C" int __lsan_do_recoverable_leak_check();

static char path[256];
static void fail(const char *what) { fprintf(stderr, "ORACLE-FAILURE %s\n", what); fflush(stderr); __builtin_trap(); }
static int open_fds() { int n = 0; DIR *d = opendir("/proc/self/fd"); if (!d) return -1; while (readdir(d)) n++; closedir(d); return n; }

static std::vector<std::string> names_of(Crystal_Array *a) {
  std::vector<std::string> v;
  int n = -1;
  char **l = Crystal_GetCrystalsList(a, &n, NULL);
  if (!l) fail("list-null");
  for (int i = 0; l[i]; i++) { v.push_back(l[i]); xrlFree(l[i]); }
  xrlFree(l);
  if ((int) v.size() != n) fail("list-count");
  return v;
}

static void once(const uint8_t *data, size_t size) {
  if (size < 1) return;
  int cap = data[0] % 13;
  FILE *f = fopen(path, "wb");
  if (!f) return;
  fwrite(data + 1, 1, size - 1, f);
  fclose(f);
  xrl_error *err = NULL;
  Crystal_Array *arr = Crystal_ArrayInit(cap, &err);
  if (!arr) fail("array-init");
  // a crystal that is already present: a file re-defining it must be rejected
  Crystal_Struct *si = Crystal_GetCrystal("Si", NULL, NULL);
  if (si && (data[0] & 0x40)) { Crystal_AddCrystal(si, arr, NULL); }
  if (si) Crystal_Free(si);
  std::vector<std::string> before = names_of(arr);
  int rv = Crystal_ReadFile(path, arr, &err);
  if ((rv == 0) != (err != NULL)) fail("zero-iff-error");
  if (err) { if (!err->message || !err->message[0]) fail("empty-message"); xrl_error_free(err); err = NULL; }
  std::vector<std::string> after = names_of(arr);
  if (rv == 0 && after != before) fail("rejected-file-changed-the-array");
  for (size_t i = 1; i < after.size(); i++) if (!(after[i - 1] < after[i])) fail("list-not-sorted-unique");
  for (auto &nm : after) {
    Crystal_Struct *c = Crystal_GetCrystal(nm.c_str(), arr, NULL);
    if (!c) fail("listed-entry-not-found");
    double v = Crystal_UnitCellVolume(c, NULL);
    if (!(c->volume == v || (std::isnan(v) && std::isnan(c->volume)))) fail("volume-not-recomputed");
    if (c->n_atom < 0) fail("negative-atom-count");
    for (int i = 0; i < c->n_atom; i++) { volatile double t = c->atom[i].x + c->atom[i].fraction; (void) t; }
    Crystal_Free(c);
  }
  Crystal_ArrayFree(arr);
}

extern "C" int LLVMFuzzerTestOneInput(const uint8_t *data, size_t size) {
  if (!path[0]) snprintf(path, sizeof path, "%s/xrlv.fuzz.%d.dat", getenv("VERIF_TMP") ? getenv("VERIF_TMP") : "/var/tmp", (int) getpid());
  once(data, size);
  int fd0 = open_fds();
  size_t h0 = __sanitizer_get_current_allocated_bytes();
  once(data, size);
  size_t h1 = __sanitizer_get_current_allocated_bytes();
  if (open_fds() != fd0) fail("file-descriptor-left-open");
  if (h1 != h0) {
    for (int i = 0; i < 10; i++) once(data, size);
    if (__lsan_do_recoverable_leak_check() != 0) fail("leak");
  }
  return 0;
}
