// libFuzzer target over the whole query API: the input bytes are decoded (FuzzedDataProvider) into 1..4 calls of functions of the generated
// dispatch table with arguments drawn from value classes *and* raw values, so that coverage feedback can move arguments to places the fixed
// classes of the sweep do not contain.  Oracle inside the target (the generic part of C03 / C04):
//   * a call made with an error slot and the same call made without one return bit-identical results;
//   * error set  => the return value is the failure value (0.0 / 0 / {0,0} / NULL), the code is one of the six, the message is not empty;
//   * no error   => every number in the result is finite, no object result is NULL;
//   * the second execution of the whole input leaves the heap as it found it (LeakSanitizer confirms a suspicion).
// Built with -fsanitize=fuzzer,address,undefined against the instrumented static library.
#include <fuzzer/FuzzedDataProvider.h>
#define XRLCALL_NO_MAIN 1
#include "../harness/xrlcall.cpp"

static std::vector<std::string> g_formulas = {"H2O", "Ca5(PO4)3OH", "C6H12O6", "(NH4)2SO4", "Fe0.5Ni.25O1.25", "UO2(NO3)2(H2O)6", "Es2O3", "Pb", "LaB6", "SiO2", "(H2O)",
                                             "Mg(O(OH)2)3", "", "Hx", "h2o", "(H2O", "H2O)", "2H", "Rf", "H0", "He2..3", "()", "(SiO2)0", "H.", "Ca.O", "Fm", "U", "Si"};
static std::vector<std::string> g_names;   // NIST compounds, nuclides, crystals, element symbols (fetched once)
static std::vector<std::string> g_crystals;
static const double g_special[] = {-1.0, 0.0, 1e-300, 1e-9, 1e-7, 1e-6, 1e-3, 0.0999999999, 0.1, 0.5, 1.0, 1.5707963267948966, 3.141592653589793, 6.283185307179586,
                                   8.0, 10.0, 100.0, 799.999, 800.0, 999.999, 1000.0, 1e4, 2e4, 1e6, 1e9, 1e300, 2.5, 0.25, 19.3, -3.141592653589793};
static long g_execs = 0, g_calls = 0, g_errors = 0;

static void oracle_fail(const char *what, const std::vector<std::string> &lines, size_t k) {
  fprintf(stderr, "ORACLE-FAILURE %s call=%s\n", what, k < lines.size() ? lines[k].c_str() : "?");
  for (auto &l : lines) fprintf(stderr, "  history: %s\n", l.c_str());
  fflush(stderr);
  __builtin_trap();
}

static void init_names() {
  int n = 0;
  char **l = GetCompoundDataNISTList(&n, NULL);
  if (l) { for (int i = 0; l[i]; i++) { g_names.push_back(l[i]); xrlFree(l[i]); } xrlFree(l); }
  l = GetRadioNuclideDataList(&n, NULL);
  if (l) { for (int i = 0; l[i]; i++) { g_names.push_back(l[i]); xrlFree(l[i]); } xrlFree(l); }
  l = Crystal_GetCrystalsList(NULL, &n, NULL);
  if (l) { for (int i = 0; l[i]; i++) { g_names.push_back(l[i]); g_crystals.push_back(l[i]); xrlFree(l[i]); } xrlFree(l); }
  for (int z = 1; z < 108; z++) { char *s = AtomicNumberToSymbol(z, NULL); if (s) { g_names.push_back(s); xrlFree(s); } }
}

static std::string hexs(const std::string &s) { return "s:" + hexenc(s.c_str(), s.size()); }

static double gen_double(FuzzedDataProvider &fdp) {
  switch (fdp.ConsumeIntegralInRange<int>(0, 4)) {
    case 0: return g_special[fdp.ConsumeIntegralInRange<size_t>(0, sizeof g_special / sizeof g_special[0] - 1)];
    case 1: return pow(10.0, fdp.ConsumeFloatingPointInRange<double>(-7.0, 7.0));
    case 2: return fdp.ConsumeFloatingPointInRange<double>(-10.0, 10.0);
    case 3: { // a special value moved by a few ulps / a relative 1e-9: the neighbourhood of table ends and edges
      double v = g_special[fdp.ConsumeIntegralInRange<size_t>(0, sizeof g_special / sizeof g_special[0] - 1)];
      int k = fdp.ConsumeIntegralInRange<int>(-3, 3);
      return k == 3 ? v * (1 + 1e-9) : k == -3 ? v * (1 - 1e-9) : (k > 0 ? nextafter(v, INFINITY) : k < 0 ? nextafter(v, -INFINITY) : v);
    }
    default: {
      double v = fdp.ConsumeFloatingPoint<double>();
      if (!std::isfinite(v)) return 1.0;
      double a = fabs(v);
      if (a != 0.0 && a < 1e-300) v = copysign(1e-300, v);   // the domain the sweep has established: |x| in {0} u [1e-300, 1e300]
      if (a > 1e300) v = copysign(1e300, v);
      return v;
    }
  }
}

static int gen_int(FuzzedDataProvider &fdp) {
  switch (fdp.ConsumeIntegralInRange<int>(0, 3)) {
    case 0: return fdp.ConsumeIntegralInRange<int>(-4, 130);
    case 1: return fdp.ConsumeIntegralInRange<int>(-400, 1100);
    case 2: { static const int sp[] = {INT_MIN, INT_MAX, 0, -1, 1, INT_MIN + 1, 65536, -65536}; return sp[fdp.ConsumeIntegralInRange<int>(0, 7)]; }
    default: return fdp.ConsumeIntegral<int>();
  }
}

static std::string gen_string(FuzzedDataProvider &fdp) {
  switch (fdp.ConsumeIntegralInRange<int>(0, 4)) {
    case 0: return hexs(g_formulas[fdp.ConsumeIntegralInRange<size_t>(0, g_formulas.size() - 1)]);
    case 1: return g_names.empty() ? "NULL" : hexs(g_names[fdp.ConsumeIntegralInRange<size_t>(0, g_names.size() - 1)]);
    case 2: return "NULL";
    case 3: { // a dictionary entry with one byte inserted, deleted or replaced
      std::string s = fdp.ConsumeBool() || g_names.empty() ? g_formulas[fdp.ConsumeIntegralInRange<size_t>(0, g_formulas.size() - 1)]
                                                           : g_names[fdp.ConsumeIntegralInRange<size_t>(0, g_names.size() - 1)];
      size_t k = fdp.ConsumeIntegralInRange<size_t>(0, s.size());
      char ch = (char) fdp.ConsumeIntegralInRange<int>(1, 255);
      int op = fdp.ConsumeIntegralInRange<int>(0, 2);
      if (op == 0) s.insert(k, 1, ch); else if (op == 1 && k < s.size()) s.erase(k, 1); else if (k < s.size()) s[k] = ch;
      return hexs(s);
    }
    default: { std::string s = fdp.ConsumeRandomLengthString(48); s = s.c_str(); return hexs(s); }
  }
}

static std::string gen_crystal(FuzzedDataProvider &fdp) {
  int m = fdp.ConsumeIntegralInRange<int>(0, 9);
  if (m == 0) return "cNULL";
  if (m < 7 && !g_crystals.empty()) { const std::string &n = g_crystals[fdp.ConsumeIntegralInRange<size_t>(0, g_crystals.size() - 1)]; return "c:" + hexenc(n.c_str(), n.size()); }
  // a generated cell that is valid by construction: orthogonal, monoclinic (beta) or hexagonal (gamma = 120)
  char buf[256];
  double a = fdp.ConsumeFloatingPointInRange<double>(1.0, 40.0), b = fdp.ConsumeFloatingPointInRange<double>(1.0, 40.0), c = fdp.ConsumeFloatingPointInRange<double>(1.0, 40.0);
  int shape = fdp.ConsumeIntegralInRange<int>(0, 2);
  double be = shape == 1 ? fdp.ConsumeFloatingPointInRange<double>(60.0, 120.0) : 90.0, ga = shape == 2 ? 120.0 : 90.0;
  snprintf(buf, sizeof buf, "g:%a;%a;%a;%a;%a;%a", a, b, c, 90.0, be, ga);
  std::string t = buf;
  int n = fdp.ConsumeIntegralInRange<int>(1, 5);
  for (int i = 0; i < n; i++) {
    int z = fdp.ConsumeIntegralInRange<int>(0, 9) == 0 ? fdp.ConsumeIntegralInRange<int>(-3, 130) : fdp.ConsumeIntegralInRange<int>(1, 98);
    snprintf(buf, sizeof buf, "|%d,%a,%a,%a,%a", z, fdp.ConsumeFloatingPointInRange<double>(0.0, 1.0), fdp.ConsumeFloatingPointInRange<double>(-1.0, 1.0),
             fdp.ConsumeFloatingPointInRange<double>(-1.0, 1.0), fdp.ConsumeFloatingPointInRange<double>(-1.0, 1.0));
    t += buf;
  }
  return t;
}

static bool skip_function(const char *name) {
  static const char *skip[] = {"SetHardExit", "SetExitStatus", "GetExitStatus", "SetErrorMessages", "GetErrorMessages"};   // deprecated stubs: print a diagnostic on every call
  for (auto s : skip) if (!strcmp(name, s)) return true;
  return false;
}

struct Outcome { std::string result, err; };

static Outcome run_mode(const std::string &line, int mode) {
  Ctx c;
  c.tok = split(line);
  callfn f = lookup(c.tok[0]);
  Outcome o;
  if (!f) { o.result = "?"; return o; }
  c.mode = mode; c.slot = NULL;
  f(c);
  o.result = c.result;
  o.err = errdesc(c.slot);
  if (c.slot) { if ((int) c.slot->code < 0 || (int) c.slot->code > 5 || !c.slot->message || !c.slot->message[0]) o.err = "BAD" + o.err; xrl_error_free(c.slot); }
  c.slot = NULL;
  c.reset_args();
  return o;
}

static bool failure_value(const std::string &r) {
  std::string m = r.substr(0, r.find(";o"));     // out parameters are appended as ;od= / ;oi= / ;oc=
  if (m.rfind("d:", 0) == 0) return strtod(m.c_str() + 2, NULL) == 0.0;            // 0.0 or -0.0
  if (m.rfind("z:", 0) == 0) { char *e; double re = strtod(m.c_str() + 2, &e); return re == 0.0 && strtod(e + 1, NULL) == 0.0; }
  return m == "i:0" || m == "s:NULL" || m == "cd:NULL" || m == "cn:NULL" || m == "rn:NULL" || m == "cs:NULL" || m == "l:NULL" ||
         m == "arr:NULL" || m == "v";
}

static void execute(const std::vector<std::string> &lines, const std::vector<bool> &has_slot, bool judge) {
  for (size_t k = 0; k < lines.size(); k++) {
    Outcome a = run_mode(lines[k], 0);
    Outcome b = run_mode(lines[k], 1);
    if (!judge) continue;
    g_calls++;
    if (a.result != b.result) oracle_fail("noslot-differs", lines, k);
    if (a.err.rfind("BAD", 0) == 0) oracle_fail("error-object", lines, k);
    if (a.err != "-") {
      g_errors++;
      if (!failure_value(a.result)) oracle_fail("value-with-error", lines, k);
    } else if (has_slot[k]) {
      if (a.result.find("nan") != std::string::npos || a.result.find("inf") != std::string::npos) oracle_fail("nonfinite-without-error", lines, k);
      if (a.result.size() > 5 && a.result.compare(a.result.size() - 5, 5, ":NULL") == 0) oracle_fail("null-without-error", lines, k);
    }
  }
}

extern "C" int LLVMFuzzerTestOneInput(const uint8_t *data, size_t size) {
  static bool inited = false;
  if (!inited) { init_names(); inited = true; }
  FuzzedDataProvider fdp(data, size);
  const size_t NF = sizeof GEN_KINDS / sizeof GEN_KINDS[0];
  std::vector<std::string> lines;
  std::vector<bool> has_slot;
  int ncalls = fdp.ConsumeIntegralInRange<int>(1, 4);
  for (int ci = 0; ci < ncalls && fdp.remaining_bytes() > 0; ci++) {
    size_t fi = fdp.ConsumeIntegralInRange<size_t>(0, NF - 1);
    if (skip_function(GEN_KINDS[fi].name)) continue;
    std::string line = GEN_KINDS[fi].name;
    bool slot = false;
    for (const char *k = GEN_KINDS[fi].kinds; *k; k++) {
      char buf[64];
      switch (*k) {
        case 'i': line += "\t" + std::to_string(gen_int(fdp)); break;
        case 'd': snprintf(buf, sizeof buf, "%a", gen_double(fdp)); line += "\t"; line += buf; break;
        case 's': line += "\t" + gen_string(fdp); break;
        case 'C': line += "\t" + gen_crystal(fdp); break;
        case 'z': { double re = gen_double(fdp), im = gen_double(fdp); snprintf(buf, sizeof buf, "%a,%a", re, im); line += "\t"; line += buf; break; }
        case '-': line += "\t-"; break;
        case 'E': slot = true; break;
      }
    }
    lines.push_back(line);
    has_slot.push_back(slot);
  }
  if (lines.empty()) return 0;
  g_execs++;
  execute(lines, has_slot, true);
  size_t h0 = heap_now();
  execute(lines, has_slot, false);
  size_t h1 = heap_now();
  if (h1 != h0) {
    for (int i = 0; i < 10; i++) execute(lines, has_slot, false);
    { volatile char scrub[65536]; memset((void *) scrub, 0, sizeof scrub); }
    if (__lsan_do_recoverable_leak_check() != 0) oracle_fail("leak", lines, 0);
  }
  return 0;
}

// statistics for the evidence file: libFuzzer calls this hook at exit when it is defined in the target's process
__attribute__((destructor)) static void dump_counters() {
  const char *p = getenv("FUZZ_API_STATS");
  if (!p) return;
  FILE *f = fopen(p, "w");
  if (!f) return;
  fprintf(f, "{\"inputs\": %ld, \"calls\": %ld, \"failing_calls\": %ld}\n", g_execs, g_calls, g_errors);
  fclose(f);
}
