// libFuzzer target: any NUL-terminated string into the formula parser and the string-taking API.
// Semantic oracle inside the target: an accepted composition is internally consistent; a rejected one comes with exactly one error;
// *_CP results are finite; the heap balance of every iteration is zero.
#include <cstdint>
#include <cstdio>
#include <cstdlib>
#include <cstring>
#include <cmath>
#include <string>
extern "C" {
#include "xraylib.h"
}
extern "C" size_t __sanitizer_get_current_allocated_bytes();
extern "C" int __lsan_do_recoverable_leak_check();

static void fail(const char *what, const std::string &s) {
  fprintf(stderr, "ORACLE-FAILURE %s input=", what);
  for (unsigned char ch : s) fprintf(stderr, "%02x", ch);
  fprintf(stderr, "\n");
  fflush(stderr);
  __builtin_trap();
}

static void once(const std::string &s) {
  xrl_error *err = NULL;
  struct compoundData *cd = CompoundParser(s.c_str(), &err);
  if ((cd == NULL) != (err != NULL)) fail("null-iff-error", s);
  if (err) { if (err->code != XRL_ERROR_INVALID_ARGUMENT || !err->message || !err->message[0]) fail("error-contract", s); xrl_error_free(err); err = NULL; }
  if (cd) {
    double sum = 0, natoms = 0;
    if (cd->nElements < 1) fail("no-elements", s);
    for (int i = 0; i < cd->nElements; i++) {
      if (i && cd->Elements[i] <= cd->Elements[i - 1]) fail("not-ascending", s);
      if (!(cd->massFractions[i] > 0) || !std::isfinite(cd->massFractions[i]) || !(cd->nAtoms[i] > 0)) fail("fraction", s);
      sum += cd->massFractions[i];
      natoms += cd->nAtoms[i];
    }
    if (std::fabs(sum - 1.0) > 1e-9 || std::fabs(natoms - cd->nAtomsAll) > 1e-9 * natoms || !(cd->molarMass > 0)) fail("sums", s);
    // combining a composition with itself gives the same fractions
    struct compoundData *twice = add_compound_data(*cd, 0.25, *cd, 0.75);
    if (!twice || twice->nElements != cd->nElements) fail("add-self", s);
    for (int i = 0; i < cd->nElements; i++) if (std::fabs(twice->massFractions[i] - cd->massFractions[i]) > 1e-12) fail("add-self-fractions", s);
    FreeCompoundData(twice);
    FreeCompoundData(cd);
  }
  double v = CS_Total_CP(s.c_str(), 10.0, &err);
  if (!std::isfinite(v) || (err && v != 0.0)) fail("cs-total-cp", s);
  if (err) { xrl_error_free(err); err = NULL; }
  xrlComplex z = Refractive_Index(s.c_str(), 8.0, 1.5, &err);
  if (!std::isfinite(z.re) || !std::isfinite(z.im)) fail("refractive-index", s);
  if (err) { xrl_error_free(err); err = NULL; }
  z = Refractive_Index(s.c_str(), 8.0, -1.0, NULL);
  DCSP_Rayl_CP(s.c_str(), 20.0, 1.0, 0.3, NULL);
  int Z = SymbolToAtomicNumber(s.c_str(), &err);
  if ((Z == 0) != (err != NULL)) fail("symbol", s);
  if (err) { xrl_error_free(err); err = NULL; }
  struct compoundDataNIST *n = GetCompoundDataNISTByName(s.c_str(), NULL);
  if (n) FreeCompoundDataNIST(n);
  struct radioNuclideData *r = GetRadioNuclideDataByName(s.c_str(), NULL);
  if (r) FreeRadioNuclideData(r);
  Crystal_Struct *c = Crystal_GetCrystal(s.c_str(), NULL, NULL);
  if (c) Crystal_Free(c);
}

extern "C" int LLVMFuzzerTestOneInput(const uint8_t *data, size_t size) {
  std::string s((const char *) data, size);
  s = s.c_str();  // NUL-terminated string: cut at the first NUL
  once(s);        // warm-up: one-time allocations inside libc
  size_t h0 = __sanitizer_get_current_allocated_bytes();
  once(s);
  size_t h1 = __sanitizer_get_current_allocated_bytes();
  if (h1 != h0) {
    for (int i = 0; i < 10; i++) once(s);
    if (__lsan_do_recoverable_leak_check() != 0) fail("leak", s);
  }
  return 0;
}
