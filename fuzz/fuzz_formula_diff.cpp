// libFuzzer target for C07: differential fuzzing of CompoundParser against a strict reference recogniser written from the documented grammar
// (a C++ port of checks/c07.py strict_parse, three verdicts).  Coverage guidance comes from the library's parser, the oracle from the reference:
//   ACCEPT      the library must accept and return exactly the reference composition (elements ascending, atom counts, mass fractions,
//               total atoms, molar mass to 1e-9);
//   REJECT      the library must return NULL with one XRL_ERROR_INVALID_ARGUMENT error;
//   UNSPECIFIED (strings the documentation does not speak about) either outcome, but an accepted result must be internally consistent.
// Element symbols are an independent IUPAC list; atomic weights are the library's own AtomicWeight (decided by C01).
#include <cstdint>
#include <cstdio>
#include <cstdlib>
#include <cstring>
#include <cmath>
#include <map>
#include <string>
#include <vector>
extern "C" {
#include "xraylib.h"
}

static const char *SYMS[] = {"H","He","Li","Be","B","C","N","O","F","Ne","Na","Mg","Al","Si","P","S","Cl","Ar","K","Ca","Sc","Ti","V","Cr","Mn","Fe","Co","Ni","Cu","Zn","Ga","Ge",
  "As","Se","Br","Kr","Rb","Sr","Y","Zr","Nb","Mo","Tc","Ru","Rh","Pd","Ag","Cd","In","Sn","Sb","Te","I","Xe","Cs","Ba","La","Ce","Pr","Nd","Pm","Sm","Eu","Gd","Tb","Dy","Ho","Er",
  "Tm","Yb","Lu","Hf","Ta","W","Re","Os","Ir","Pt","Au","Hg","Tl","Pb","Bi","Po","At","Rn","Fr","Ra","Ac","Th","Pa","U","Np","Pu","Am","Cm","Bk","Cf","Es","Fm","Md","No","Lr",
  "Rf","Db","Sg","Bh"};
static const int NSYM = sizeof SYMS / sizeof SYMS[0];
static double AW[120];
static long n_accept = 0, n_reject = 0, n_unspec = 0;

static int zof(const std::string &s) { for (int i = 0; i < NSYM; i++) if (s == SYMS[i]) return i + 1; return 0; }
static bool lower(char c) { return c >= 'a' && c <= 'z'; }
static bool upper(char c) { return c >= 'A' && c <= 'Z'; }
static bool digit(char c) { return c >= '0' && c <= '9'; }
static bool alpha(char c) { return lower(c) || upper(c); }
static bool numch(char c) { return digit(c) || c == '.'; }

enum Verdict { ACCEPT, REJECT, UNSPEC };
typedef std::map<int, double> Counts;

// subscript token at pos: [0-9]+\.[0-9]+ | \.[0-9]+ | [0-9]+   -> length (0 = none)
static size_t sub_len(const std::string &b, size_t pos) {
  size_t i = pos;
  while (i < b.size() && digit(b[i])) i++;
  size_t nd = i - pos;
  if (i < b.size() && b[i] == '.') {
    size_t j = i + 1;
    while (j < b.size() && digit(b[j])) j++;
    if (j > i + 1) return j - pos;          // digits* '.' digits+
  }
  return nd;                                 // digits+ (or nothing)
}

static bool formula(const std::string &b, size_t &pos, bool top, Counts &out) {
  int nterms = 0;
  while (pos < b.size()) {
    char ch = b[pos];
    if (ch == '(') {
      Counts sub;
      pos++;
      if (!formula(b, pos, false, sub) || pos >= b.size() || b[pos] != ')') return false;
      pos++;
      double mult = 1.0;
      size_t n = sub_len(b, pos);
      if (n) { mult = strtod(b.substr(pos, n).c_str(), NULL); pos += n; }
      for (auto &kv : sub) out[kv.first] += kv.second * mult;
    } else if (upper(ch)) {
      std::string sym(1, ch);
      if (pos + 1 < b.size() && lower(b[pos + 1])) sym.push_back(b[pos + 1]);
      int z = zof(sym);
      if (!z) { sym = sym.substr(0, 1); z = zof(sym); if (!z) return false; }
      pos += sym.size();
      double mult = 1.0;
      size_t n = sub_len(b, pos);
      if (n) { mult = strtod(b.substr(pos, n).c_str(), NULL); pos += n; }
      out[z] += mult;
    } else if (ch == ')' && !top) {
      break;
    } else {
      return false;
    }
    nterms++;
  }
  return nterms > 0;
}

static Verdict strict_parse(const std::string &b, Counts &cnt) {
  if (b.empty()) return REJECT;
  for (char c : b) if (!(alpha(c) || digit(c) || c == '(' || c == ')' || c == '.')) return REJECT;
  int depth = 0;
  for (char c : b) { if (c == '(') depth++; else if (c == ')') { if (--depth < 0) return REJECT; } }
  if (depth != 0) return REJECT;
  if (b.find("()") != std::string::npos) return REJECT;
  if (lower(b[0]) || digit(b[0])) return REJECT;
  for (size_t i = 0; i < b.size();) {                      // every maximal [A-Z][a-z]* must be a symbol
    if (upper(b[i])) { size_t j = i + 1; while (j < b.size() && lower(b[j])) j++; if (!zof(b.substr(i, j - i))) return REJECT; i = j; } else i++;
  }
  for (size_t i = 0; i < b.size(); i++)                    // a lowercase letter that does not follow a letter: unspecified from here on
    if (lower(b[i]) && (i == 0 || !alpha(b[i - 1]))) return UNSPEC;
  for (size_t i = 0; i < b.size();) {                      // numbers in subscript position
    if (!numch(b[i])) { i++; continue; }
    size_t j = i; while (j < b.size() && numch(b[j])) j++;
    std::string t = b.substr(i, j - i);
    bool subscript_position = !(i == 0 || b[i - 1] == '(');
    if (subscript_position) {
      int dots = 0; bool nonzero = false;
      for (char c : t) { if (c == '.') dots++; if (c >= '1' && c <= '9') nonzero = true; }
      if (dots >= 2) return REJECT;
      if (t == ".") return REJECT;
      if (!nonzero) return REJECT;
    }
    i = j;
  }
  for (size_t i = 0; i + 1 < b.size(); i++) if (digit(b[i]) && b[i + 1] == '.' && (i + 2 >= b.size() || !digit(b[i + 2]))) return UNSPEC;   // trailing dot
  for (size_t i = 0; i + 1 < b.size(); i++) if (b[i] == '(' && numch(b[i + 1])) return UNSPEC;
  if (numch(b[0])) return UNSPEC;
  size_t pos = 0;
  cnt.clear();
  if (!formula(b, pos, true, cnt) || pos != b.size()) return UNSPEC;
  for (auto &kv : cnt) if (!(kv.second > 0)) return REJECT;
  for (auto &kv : cnt) if (!(AW[kv.first] > 0)) return REJECT;
  return ACCEPT;
}

static void fail(const char *what, const std::string &s) {
  fprintf(stderr, "ORACLE-FAILURE %s input=", what);
  for (unsigned char ch : s) fprintf(stderr, "%02x", ch);
  fprintf(stderr, " text=%s\n", s.c_str());
  fflush(stderr);
  __builtin_trap();
}
static bool close_to(double a, double b) { return std::isfinite(a) && fabs(a - b) <= 1e-9 * fmax(fabs(a), fabs(b)); }

extern "C" int LLVMFuzzerTestOneInput(const uint8_t *data, size_t size) {
  static bool inited = false;
  if (!inited) { for (int z = 1; z < 120; z++) AW[z] = AtomicWeight(z, NULL); inited = true; }
  std::string s((const char *) data, size);
  s = s.c_str();
  Counts cnt;
  Verdict v = strict_parse(s, cnt);
  xrl_error *err = NULL;
  struct compoundData *cd = CompoundParser(s.c_str(), &err);
  if ((cd == NULL) != (err != NULL)) fail("null-iff-error", s);
  if (v == ACCEPT) {
    n_accept++;
    if (!cd) fail("rejected-wellformed", s);
    if ((size_t) cd->nElements != cnt.size()) fail("composition-elements", s);
    double M = 0, N = 0;
    for (auto &kv : cnt) { M += kv.second * AW[kv.first]; N += kv.second; }
    int i = 0;
    for (auto &kv : cnt) {
      if (cd->Elements[i] != kv.first) fail("composition-elements", s);
      if (!close_to(cd->nAtoms[i], kv.second)) fail("composition-nAtoms", s);
      if (!close_to(cd->massFractions[i], kv.second * AW[kv.first] / M)) fail("composition-massFractions", s);
      i++;
    }
    if (!close_to(cd->nAtomsAll, N) || !close_to(cd->molarMass, M)) fail("composition-totals", s);
  } else if (v == REJECT) {
    n_reject++;
    if (cd) fail("accepted-malformed", s);
    if (err->code != XRL_ERROR_INVALID_ARGUMENT) fail("error-code", s);
  } else {
    n_unspec++;
    if (cd) {
      double sum = 0, n = 0;
      for (int i = 0; i < cd->nElements; i++) {
        if (i && cd->Elements[i] <= cd->Elements[i - 1]) fail("unspecified-inconsistent", s);
        if (!(cd->massFractions[i] > 0) || !(cd->nAtoms[i] > 0) || !std::isfinite(cd->massFractions[i]) || !std::isfinite(cd->nAtoms[i])) fail("unspecified-inconsistent", s);
        sum += cd->massFractions[i]; n += cd->nAtoms[i];
      }
      if (cd->nElements < 1 || fabs(sum - 1.0) > 1e-9 || !close_to(cd->nAtomsAll, n) || !(cd->molarMass > 0)) fail("unspecified-inconsistent", s);
    }
  }
  if (cd) FreeCompoundData(cd);
  if (err) xrl_error_free(err);
  return 0;
}

__attribute__((destructor)) static void dump_counters() {
  const char *p = getenv("FUZZ_DIFF_STATS");
  if (!p) return;
  FILE *f = fopen(p, "w");
  if (!f) return;
  fprintf(f, "{\"accept\": %ld, \"reject\": %ld, \"unspecified\": %ld}\n", n_accept, n_reject, n_unspec);
  fclose(f);
}
